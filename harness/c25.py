"""C25: constraint_to_si never cuts off a satisfying assignment.

  1. theorems: Props/C25.v over Model/Balance.v and the tables regenerated from the source (operations.opposites,
     Balancer.comparison_info, Balancer._unsigned_comparison);
  2. correspondence: the extracted model against the real Balancer -- the bounds of  x <op> k / k <op> x  (all operators,
     constants and sides; the operand ranges are the ones VSA reports), _reverse_comparison, _nonstrict, and the operator
     that _balance_zeroext leaves;
  3. search: a fixed domain of constraints (shapes of the property text: variable/constant, zero/sign extension, add/sub,
     extract, concat, and, shift, If, two variables, And/Or/Not; plain and interval-annotated variables); every assignment is
     enumerated with the extracted evaluator; a satisfiable constraint must be reported satisfiable and every returned bound
     must contain the value of its expression under every satisfying assignment.  Inputs that fail on the pinned tree are
     recorded in known/C25.txt.gz (known findings, by site); any other failing input is a violation.  Sites without a known
     finding additionally get seed-dependent random inputs.
"""
from __future__ import annotations

import collections
import gzip
import itertools
import json
import logging
import os
import random
import sys

from common import KERNEL_TB, REPO, VERIF, Driver, Report, build_driver, check_props, coq_make, known_findings, regen_all, scan_forbidden
from c01 import BV_DRIVER
from sicheck import Dom, keystr

PROP = "C25"
DOMAIN_SEED = 20260925
KNOWN_FILE = os.path.join(VERIF, "known", "C25.txt.gz")
OPS = ["__eq__", "__ne__", "ULT", "ULE", "UGT", "UGE", "SLT", "SLE", "SGT", "SGE"]
IVS = {3: [(1, 0, 7), (1, 2, 5), (2, 1, 5), (1, 5, 7), (1, 6, 1), (3, 0, 6), (1, 0, 3), (1, 4, 7), (2, 6, 2)],
       4: [(1, 0, 15), (1, 3, 9), (4, 1, 13), (1, 12, 2), (1, 8, 15), (2, 0, 6)]}


class Env:
    def __init__(self):
        sys.path.insert(0, REPO)
        logging.disable(logging.CRITICAL)
        sys.setrecursionlimit(800)
        import astio
        import claripy
        from claripy.backends.backend_vsa.balancer import Balancer
        self.astio, self.c, self.Balancer = astio, claripy, Balancer
        self.vsa = claripy.backends.vsa
        self.ctr = itertools.count()


E = None


def apply(op, a, b):
    return E.astio.apply_op(op, [], [a, b])


class Built:
    def __init__(self):
        self.vars = []     # (ast, Dom or None)

    def var(self, w, iv, tag):
        c = E.c
        name = "c25_%s_%d" % (tag, next(E.ctr))
        if iv is None:
            v = c.BVS(name, w, explicit_name=True)
            d = None
        else:
            v = c.SI(name=name, bits=w, stride=iv[0], lower_bound=iv[1], upper_bound=iv[2], explicit_name=True)
            d = Dom((w,) + tuple(iv))
        self.vars.append((v, d))
        return v


def build(key):
    """key: tuple (shape, op, w, iv-index-or--1, params...) -> (constraint, Built)"""
    c = E.c
    shape, op, w, ivi = key[0], key[1], key[2], key[3]
    p = key[4:]
    b = Built()
    iv = None if ivi < 0 else IVS[w][ivi]
    x = b.var(w, iv, "x")
    K = lambda v, ww=w: c.BVV(v & ((1 << ww) - 1), ww)  # noqa
    if shape == "S1":
        r = apply(op, x, K(p[0]))
    elif shape == "S1r":
        r = apply(op, K(p[0]), x)
    elif shape == "S1n":
        r = c.Not(apply(op, x, K(p[0])))
    elif shape == "S2zext":
        r = apply(op, c.ZeroExt(p[0], x), K(p[1], w + p[0]))
    elif shape == "S2zextr":
        r = apply(op, K(p[1], w + p[0]), c.ZeroExt(p[0], x))
    elif shape == "S9sext":
        r = apply(op, c.SignExt(p[0], x), K(p[1], w + p[0]))
    elif shape == "S5concat0":
        r = apply(op, c.Concat(c.BVV(0, p[0]), x), K(p[1], w + p[0]))
    elif shape == "S3add":
        r = apply(op, x + K(p[0]), K(p[1]))
    elif shape == "S3sub":
        r = apply(op, x - K(p[0]), K(p[1]))
    elif shape == "S3rsub":
        r = apply(op, K(p[0]) - x, K(p[1]))
    elif shape == "S4extract":
        r = apply(op, x[p[0]:p[1]], K(p[2], p[0] - p[1] + 1))
    elif shape == "S6and":
        r = apply(op, x & K(p[0]), K(p[1]))
    elif shape == "S7shl":
        r = apply(op, x << K(p[0]), K(p[1]))
    elif shape == "S8if":
        r = apply(op, c.If(apply(OPS[p[0]], x, K(p[1])), K(p[2]), K(p[3])), K(p[4]))
    elif shape == "S8ifx":
        r = apply(op, c.If(apply(OPS[p[0]], x, K(p[1])), x, K(p[2])), K(p[3]))
    elif shape == "S10xy":
        y = b.var(w, None if p[0] < 0 else IVS[w][p[0]], "y")
        r = apply(op, x, y)
    elif shape == "S10addxy":
        y = b.var(w, None if p[0] < 0 else IVS[w][p[0]], "y")
        r = apply(op, x + y, K(p[1]))
    elif shape == "S11and":
        r = c.And(apply(op, x, K(p[0])), apply(OPS[p[1]], x, K(p[2])))
    elif shape == "S11or":
        r = c.Or(apply(op, x, K(p[0])), apply(OPS[p[1]], x, K(p[2])))
    elif shape == "S11andxy":
        y = b.var(w, None if p[0] < 0 else IVS[w][p[0]], "y")
        r = c.And(apply(op, x, K(p[1])), apply(OPS[p[2]], y, x))
    elif shape == "S11notand":
        r = c.Not(c.And(apply(op, x, K(p[0])), apply(OPS[p[1]], x, K(p[2]))))
    else:
        raise ValueError(shape)
    return r, b


def key_str(key):
    return "|".join(str(k) for k in key)


def parse_key_str(s):
    t = s.split("|")
    return tuple([t[0], t[1]] + [int(v) for v in t[2:]])


def site_of(key):
    return key[0] + (":top" if key[3] < 0 and not (key[0] in ("S10xy", "S10addxy", "S11andxy") and key[4] >= 0) else ":ann")


def domain(tier):
    """the fixed list of keys (independent of VERIF_SEED)"""
    rng = random.Random(DOMAIN_SEED)
    out = []
    w = 3
    n = 1 << w
    for op in OPS:
        for ivi in [-1] + list(range(len(IVS[w]))):
            ks = range(n) if ivi < 0 else rng.sample(range(n), 4)
            for k in ks:
                out += [("S1", op, w, ivi, k), ("S1r", op, w, ivi, k), ("S1n", op, w, ivi, k)]
                js = range(1, n) if ivi < 0 else rng.sample(range(1, n), 2)
                for j in js:
                    out += [("S3add", op, w, ivi, j, k), ("S3sub", op, w, ivi, j, k), ("S3rsub", op, w, ivi, j, k)]
                for m in ((1, 3, 6, 7, 4) if ivi < 0 else (3, 6)):
                    out.append(("S6and", op, w, ivi, m, k))
                for s in (1, 2):
                    out.append(("S7shl", op, w, ivi, s, k))
                for cop, k2, a, b in ((5, 2, 1, 6), (5, 5, 0, 7), (2, 3, 3, 3), (0, 4, 2, 5)):
                    out.append(("S8if", op, w, ivi, cop, k2, a, b, k))
                    out.append(("S8ifx", op, w, ivi, cop, k2, b, k))
                for op2i, k2 in ((2, 5), (5, 2), (1, 0), (7, 1)):
                    out += [("S11and", op, w, ivi, k, op2i, k2), ("S11or", op, w, ivi, k, op2i, k2), ("S11notand", op, w, ivi, k, op2i, k2)]
            for z in (1, 2):
                Cs = range(1 << (w + z)) if ivi < 0 else rng.sample(range(1 << (w + z)), 6)
                for C in Cs:
                    out += [("S2zext", op, w, ivi, z, C), ("S2zextr", op, w, ivi, z, C), ("S9sext", op, w, ivi, z, C), ("S5concat0", op, w, ivi, z, C)]
            for hi in range(w):
                for lo in range(hi + 1):
                    if hi - lo + 1 == w:
                        continue
                    for cc in range(1 << (hi - lo + 1)):
                        out.append(("S4extract", op, w, ivi, hi, lo, cc))
            for yi in ([-1, 1, 4] if ivi in (-1, 1, 5) else []):
                out.append(("S10xy", op, w, ivi, yi))
                for k in (0, 3, 7):
                    out.append(("S10addxy", op, w, ivi, yi, k))
                    for op2i in (0, 2, 5, 7):
                        out.append(("S11andxy", op, w, ivi, yi, k, op2i))
    # width 4, sparser
    w = 4
    n = 16
    for op in OPS:
        for ivi in [-1, 1, 2, 3]:
            for k in rng.sample(range(n), 5):
                out += [("S1", op, w, ivi, k), ("S1r", op, w, ivi, k)]
                j = rng.randrange(1, n)
                out += [("S3add", op, w, ivi, j, k), ("S3sub", op, w, ivi, j, k), ("S7shl", op, w, ivi, rng.randint(1, 3), k),
                        ("S6and", op, w, ivi, rng.choice([3, 7, 12, 15]), k)]
            for C in rng.sample(range(32), 6):
                out += [("S2zext", op, w, ivi, 1, C), ("S2zextr", op, w, ivi, 1, C), ("S9sext", op, w, ivi, 1, C)]
            for hi, lo in ((2, 0), (3, 2), (1, 1), (0, 0)):
                out.append(("S4extract", op, w, ivi, hi, lo, rng.randrange(1 << (hi - lo + 1))))
    out = list(dict.fromkeys(out))
    if tier != "thorough":
        # every site keeps a share; the order is fixed
        keep = []
        seen = collections.Counter()
        for k in out:
            s = site_of(k)
            seen[s] += 1
            if seen[s] % 6 == 1 or k[0] in ("S1r", "S2zext", "S2zextr") and k[3] < 0 and seen[s] % 2 == 1:
                keep.append(k)
        out = keep
    return out


def random_key(rng, shapes):
    """seed-dependent inputs for the sites without a known finding (plain variables)"""
    shape = rng.choice(shapes)
    op = rng.choice(OPS)
    w = rng.choice([2, 3, 4, 5])
    n = 1 << w
    k = rng.choice([0, 1, n - 1, n >> 1, (n >> 1) - 1, rng.randrange(n)])
    if shape in ("S1", "S1r", "S1n"):
        return (shape, op, w, -1, k)
    if shape in ("S2zext", "S2zextr", "S9sext", "S5concat0"):
        z = rng.randint(1, 3)
        C = rng.choice([0, n - 1, n, n + 1, (1 << (w + z)) - 1, rng.randrange(1 << (w + z))])
        return (shape, op, w, -1, z, C)
    if shape in ("S3add", "S3sub", "S3rsub"):
        return (shape, op, w, -1, rng.randrange(1, n), k)
    if shape == "S4extract":
        hi = rng.randrange(w)
        lo = rng.randint(0, hi)
        if hi - lo + 1 == w:
            lo = 1 if w > 1 else 0
            hi = max(hi, lo)
        return (shape, op, w, -1, hi, lo, rng.randrange(1 << (hi - lo + 1)))
    if shape == "S6and":
        return (shape, op, w, -1, rng.randrange(n), k)
    if shape == "S7shl":
        return (shape, op, w, -1, rng.randrange(1, w), k)
    if shape == "S8if":
        return (shape, op, w, -1, rng.randrange(10), rng.randrange(n), rng.randrange(n), rng.randrange(n), k)
    if shape == "S8ifx":
        return (shape, op, w, -1, rng.randrange(10), rng.randrange(n), rng.randrange(n), k)
    if shape in ("S11and", "S11or", "S11notand"):
        return (shape, op, w, -1, k, rng.randrange(10), rng.randrange(n))
    if shape == "S10xy":
        return (shape, op, min(w, 4), -1, -1)
    if shape == "S10addxy":
        return (shape, op, min(w, 4), -1, -1, k % (1 << min(w, 4)))
    if shape == "S11andxy":
        return (shape, op, min(w, 4), -1, -1, k % (1 << min(w, 4)), rng.randrange(10))
    raise ValueError(shape)


class Checker:
    def __init__(self, drv, stats):
        self.drv, self.stats = drv, stats

    def check(self, key):
        """-> None | (kind, detail)"""
        from c24 import Unser, ser
        c = E.c
        try:
            cons, b = build(key)
        except Exception as ex:  # noqa
            if type(ex).__name__.startswith("Claripy"):
                self.stats["unbuildable"] += 1
                return None
            raise
        if cons.op == "BoolV":
            self.stats["trivial"] += 1
            return None
        try:
            sat, reps = E.vsa.constraint_to_si(cons)
        except RecursionError:
            self.stats["recursion"] += 1
            return None
        except Exception as ex:  # noqa
            if type(ex).__name__.startswith(("Claripy", "Backend")):
                self.stats["refused"] += 1
                return None
            return ("raises:" + type(ex).__name__, str(ex)[:120])
        names = E.astio.Names()
        for v, _ in b.vars:
            names.id(v.args[0])
        try:
            memo = {}
            terms = [cons] + [e for e, _ in reps]
            ss = [ser(t, names, memo) for t in terms]
        except Unser:
            self.stats["unserialisable"] += 1
            return None
        bvvars = [(names.id(v.args[0]), v.length) for v, _ in b.vars]
        out = self.drv.ask(["enum", ss, bvvars, []])
        rows = [r.strip() for r in out.split(";") if r.strip()]
        models = []
        idx = 0
        for vals in itertools.product(*[range(1 << v.length) for v, _ in b.vars]):
            row = rows[idx].split()
            idx += 1
            if not all(d is None or d.has(x) for (_, d), x in zip(b.vars, vals)):
                continue
            if row[0] == "T":
                models.append((vals, row[1:]))
        if not models:
            self.stats["no_model"] += 1
            return None
        self.stats["satisfiable_constraints"] += 1
        if not sat:
            return ("unsat", "reported unsatisfiable although e.g. %s satisfies %s" % (list(models[0][0]), cons))
        for i, (e, bound) in enumerate(reps):
            try:
                m = E.vsa.convert(bound)
            except Exception as ex:  # noqa
                self.stats["bound_unconvertible"] += 1
                continue
            if not hasattr(m, "stride") or getattr(m, "_reversed", False):
                continue
            d = Dom((m.bits, m.stride, m.lower_bound, m.upper_bound)) if not m.is_empty else None
            self.stats["bounds_checked"] += 1
            for vals, row in models:
                v = row[i]
                if v in ("T", "F", "N"):
                    break
                if d is None or not d.has(int(v)):
                    return ("cut", "%s: bound %s on %s lacks %s (assignment %s)" % (cons, m, e, v, list(vals)))
        return None


def correspondence(drv, rng, stats, n):
    """-> None | mismatch"""
    c, B = E.c, E.Balancer
    for i in range(n):
        w = rng.choice([2, 3, 3, 4, 5, 8])
        N = 1 << w
        op = rng.choice(OPS)
        k = rng.choice([0, 1, N - 1, N >> 1, (N >> 1) - 1, rng.randrange(N)])
        side = rng.random() < 0.4
        if rng.random() < 0.5:
            x = c.BVS("c25c_%d" % next(E.ctr), w, explicit_name=True)
            ivd = "top"
        else:
            lo = rng.randrange(N)
            hi = rng.randrange(lo, N)
            if lo == hi:
                continue
            x = c.SI(name="c25c_%d" % next(E.ctr), bits=w, stride=1, lower_bound=lo, upper_bound=hi, explicit_name=True)
            ivd = "1[%d,%d]" % (lo, hi)
        K = c.BVV(k, w)
        cons = apply(op, K, x) if side else apply(op, x, K)
        if cons.op == "BoolV":
            continue
        # the operator the balancer works with after _adjust_truism, for the view of the range
        op1 = drv.ask(["bal", "reverse", op]) if side else op
        signed = op1 in ("SLT", "SLE", "SGT", "SGE")
        try:
            lmin, lmax = B._range(x, signed=signed)
            b = B(cons)
        except Exception:  # noqa
            continue
        out = drv.ask(["bal", "simple", op, "1" if side else "0", w, k, lmin, lmax])
        stats["corr_simple"] += 1
        if out[0] != "some":
            return {"what": "model has no answer", "constraint": str(cons), "interval": ivd}
        msat, mlo, mhi = out[1] == "1", int(out[2]), int(out[3])
        if b.sat != msat:
            # VSA may prove the constraint false beforehand; the model reports unsat only from the bounds
            if b.sat is False and E.vsa.is_false(cons):
                stats["corr_simple_vsa_false"] += 1
                continue
            return {"what": "sat differs", "constraint": str(cons), "interval": ivd, "model": msat, "real": b.sat}
        if not msat:
            continue
        h = x.hash()
        rlo = b._lower_bounds.get(h, 0)
        rhi = b._upper_bounds.get(h, N - 1)
        if h not in b._lower_bounds and h not in b._upper_bounds:
            stats["corr_simple_no_bound"] += 1
            if E.Balancer._cardinality(x) == 1:
                continue
        if (rlo, rhi) != (mlo, mhi):
            return {"what": "bounds differ", "constraint": str(cons), "interval": ivd, "model": [mlo, mhi], "real": [rlo, rhi],
                    "range_given": [lmin, lmax]}
    # rules
    for op in OPS:
        for w in (2, 3, 4, 8):
            for k in {0, 1, (1 << w) - 1, 1 << (w - 1), (1 << (w - 1)) - 1, rng.randrange(1 << w)}:
                x = c.BVS("c25r_%d" % next(E.ctr), w, explicit_name=True)
                K = c.BVV(k, w)
                # _reverse_comparison
                t = apply(op, K, x)
                if t.op != "BoolV":
                    r = B._reverse_comparison(t)
                    stats["corr_reverse"] += 1
                    m = drv.ask(["bal", "reverse", t.op])
                    if r.op != m or (op not in ("__eq__", "__ne__") and (r.args[0] is not t.args[1] or r.args[1] is not t.args[0])):
                        return {"what": "_reverse_comparison", "truism": str(t), "real": str(r), "model_op": m}
                # _nonstrict
                rop, rrhs = B._nonstrict(op, K)
                stats["corr_nonstrict"] += 1
                m = drv.ask(["bal", "nonstrict", op, w, k])
                rv = E.vsa.eval(rrhs, 1)[0]
                if [rop, rv] != [m[0], int(m[1])]:
                    return {"what": "_nonstrict", "op": op, "width": w, "constant": k, "real": [rop, rv], "model": m}
                # _balance_zeroext
                for z in (0, 1, 3):
                    if z == 0:
                        continue
                    t = c.ast.Bool(op, (c.ZeroExt(z, x), c.BVV(k, w + z)))
                    r = B._balance_zeroext(t)
                    stats["corr_zeroext"] += 1
                    m = drv.ask(["bal", "zeroext", op, z])
                    if r is t:
                        return {"what": "_balance_zeroext did not strip a fitting constant", "truism": str(t)}
                    if r.op != m or r.args[0] is not x or E.vsa.eval(r.args[1], 1)[0] != k:
                        return {"what": "_balance_zeroext", "truism": str(t), "real": str(r), "model_op": m}
    return None


def load_known():
    s = set()
    if os.path.exists(KNOWN_FILE):
        with gzip.open(KNOWN_FILE, "rt") as f:
            for line in f:
                t = line.rstrip("\n").split("\t")
                if len(t) >= 2:
                    s.add((t[0], t[1]))
    return s


def sweep(tier, seed, drv, stats, known_sites):
    ck = Checker(drv, stats)
    fails = []
    keys = domain(tier)
    for key in keys:
        stats["domain_inputs"] += 1
        r = ck.check(key)
        if r:
            fails.append((site_of(key), key_str(key), r[0], r[1]))
    # seed-dependent extras on the sites that have no known finding
    rng = random.Random(seed)
    shapes = sorted({k[0] for k in keys})
    clean = [s for s in shapes if (s + ":top") not in known_sites]
    n_extra = 4000 if tier == "thorough" else 500
    for _ in range(n_extra if clean else 0):
        key = random_key(rng, clean)
        stats["random_inputs"] += 1
        r = ck.check(key)
        if r:
            fails.append((site_of(key), key_str(key), r[0], r[1]))
    return fails


def main(tier, seed, replay=None):
    global E
    E = Env()
    rep = Report(PROP, tier, seed)
    if replay:
        r = json.load(open(replay))
        okd, _ = build_driver(*BV_DRIVER)
        drv = Driver("bvdriver")
        ck = Checker(drv, collections.Counter())
        bad = 0
        known = load_known()
        for site, ks in r.get("failing_inputs", []):
            res = ck.check(parse_key_str(ks))
            print("replay %s -> %s" % (ks, res))
            if res and (site, ks) not in known:
                bad += 1
        drv.close()
        if bad or "broken" in r:
            if "broken" in r:
                print("replay file records:", json.dumps(r["broken"], default=str)[:1500])
            print("VIOLATION property=%s replay=%s" % (PROP, replay))
            return 1
        return 0
    errs = regen_all()
    ok_make, log = coq_make(["Proofs/BalanceSound.vo"])
    pr = check_props(PROP) if ok_make else {"ok": False, "obligations": [
        {"name": "C25_*", "closed": False, "axioms": ["<does not compile>"], "ok": False}], "log": log[-3000:]}
    rep.obligations(pr, "make Proofs/BalanceSound.vo && coqc -R coq CV coq/Props/C25.v (Print Assumptions)")
    forb = scan_forbidden()
    proof_ok = pr["ok"] and not forb and not errs.get("BalancerTables")
    okd, dlog = build_driver(*BV_DRIVER)
    stats = collections.Counter()
    mismatch = None
    fails = []
    kf = {f["site"]: f for f in known_findings(PROP)}
    known = load_known()
    if okd:
        drv = Driver("bvdriver")
        try:
            try:
                mismatch = correspondence(drv, random.Random(seed + 7), stats, 3000 if tier == "thorough" else 600)
            except Exception as ex:  # noqa
                mismatch = {"exception": repr(ex)}
            fails = sweep(tier, seed, drv, stats, set(kf))
        finally:
            drv.close()
    rep.count(n=stats["domain_inputs"] + stats["random_inputs"])
    by_site = collections.defaultdict(list)
    new_by_site = collections.defaultdict(list)
    for site, ks, kind, detail in fails:
        if site in kf and (site, ks) in known:
            by_site[site].append((ks, kind, detail))
        else:
            new_by_site[site].append((ks, kind, detail))
    for s in sorted(by_site):
        rep.known(kf[s], "%d recorded failing inputs hit, e.g. %s: %s" % (len(by_site[s]), by_site[s][0][0], by_site[s][0][2][:160]))
        rep.known_hits[s] = len(by_site[s])
    for s in sorted(new_by_site):
        l = sorted(new_by_site[s], key=lambda t: (len(t[0]), t[0]))
        rep.violation({"site": s, "count": len(l), "failing_inputs": [[s, ks] for ks, _, _ in l[:50]],
                       "details": [d for _, _, d in l[:10]], "kinds": dict(collections.Counter(k for _, k, _ in l)),
                       "input_format": "shape|operator|width|interval index (-1: plain variable)|shape parameters",
                       "known_finding_for_site": s in kf})
    rep._distinct = range(max(0, stats["satisfiable_constraints"]))
    rep.cov["rule"] = ("fixed domain of constraints over 1..2 variables of width 3 (and 4): variable/constant on either side and negated, "
                       "ZeroExt/SignExt/Concat-with-zero against every constant, x+j / x-j / j-x, Extract, And-mask, left shift, If, "
                       "two variables, And/Or/Not of two comparisons; all ten comparison operators; plain variables and variables "
                       "annotated with 9 (6) intervals incl. wrapping and strided ones; every assignment enumerated; plus random inputs "
                       "of width 2..5 on the sites without a known finding")
    rep.cov["histogram"] = dict(stats)
    rep.cov["traces_validated_against_impl"] = sum(v for k, v in stats.items() if k.startswith("corr_")) if not mismatch else 0
    rep.cov["translator"] = {"BalancerTables": errs.get("BalancerTables") or "regenerated"}
    rep.cov["failing_evaluations_known"] = sum(len(v) for v in by_site.values())
    if not new_by_site and (not proof_ok or mismatch or not okd):
        rep.violation({"broken": {"obligations_not_discharged": [o for o in pr["obligations"] if not o["ok"]], "forbidden": forb,
                                  "translator": errs.get("BalancerTables"), "model_mismatch": mismatch,
                                  "driver": None if okd else dlog[-800:], "coq_log_tail": pr.get("log", "")[-1200:]},
                       "note": "theorem or correspondence no longer checks; the sweep of the real balancer found no new failing input"},
                      found_input=False)
    elif new_by_site and mismatch:
        print("note: model/implementation mismatch as well: %s" % json.dumps(mismatch, default=str)[:500])
    rep.cov["trusted_base"] = KERNEL_TB + [
        "Print Assumptions of Props/C25.v theorems: Closed under the global context",
        "tools/py2coq.py (BalancerTables: three dict literals); extraction (ExtrOcamlBasic only) of Balance.simple_bounds/"
        "nonstrict/zeroext_rule/reverse_op and Ast.eval; ocaml/bvdriver.ml",
        "Model/Balance.v is hand-written; alignment, add/sub/and/concat/signext/If balancing, truism unpacking and every use of "
        "VSA's answers on annotated operands are not modelled (search only)",
    ]
    rep.assumptions = ["the ranges VSA reports for the operands contain their values (C22/C24)"]
    return rep.finish("proof")
