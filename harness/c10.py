"""C10 -- cheap truth checks never claim a truth value that does not hold.
Proof: Props/C10.v (is_true / is_false of the construction model; corollary of C01_tree).
Direct property test on the real code: claripy.is_true/is_false and Bool.is_true/is_false against the truth
table of the *written* tree; solver.is_true/is_false against brute-force enumeration of the models of the
constraints (+ extra constraints), with repeated queries so that cached answers are exercised."""
from __future__ import annotations

import collections
import itertools
import json
import random
import sys
import time

from common import KERNEL_TB, REPO, Driver, Report, build_driver, check_props, coq_make, regen_all, scan_forbidden
from c01 import BV_DRIVER, TEMPLATE_RULES, assignments, template_program

PROP = "C10"


def main(tier, seed, replay=None):
    sys.path.insert(0, REPO)
    import astio
    import claripy
    import progs
    rep = Report(PROP, tier, seed)
    rng = random.Random(seed)
    if replay:
        r = json.load(open(replay))
        print("replay file records:", json.dumps(r, default=str)[:1200])
        return 1
    regen_all()
    ok_make, log = coq_make(["Proofs/MetaSound.vo"])
    pr = check_props("C10") if ok_make else {"ok": False, "obligations": [
        {"name": "C10_is_true", "closed": False, "axioms": ["<does not compile>"], "ok": False}], "log": log[-3000:]}
    rep.obligations(pr, "make Proofs/MetaSound.vo && coqc -R coq CV coq/Props/C10.v (Print Assumptions)")
    forb = scan_forbidden()
    proof_ok = pr["ok"] and not forb
    okd, dlog = build_driver(*BV_DRIVER)
    drv = Driver("bvdriver") if okd else None
    stats = collections.Counter()
    fail = None
    mismatch = None
    if drv is not None:
        gen = astio.TreeGen(rng, widths=[1, 2, 3, 4, 8, 16, 32, 64])
        programs = []
        for name in TEMPLATE_RULES:
            for _ in range(5 if tier == "quick" else 80):
                programs.append(template_program(rng, name))
        for _ in range(300 if tier == "quick" else 6000):
            programs.append(gen.program(rng.randrange(3, 12)))
        t_end = time.time() + (120 if tier == "quick" else 2000)
        for steps in programs:
            if time.time() > t_end or fail:
                break
            names = astio.Names()
            real, sers = progs.build_real(steps, names)
            bvn, booln = progs.var_table(steps, names)
            bool_steps = [i for i, st in enumerate(steps) if st[4] == -1 and real[i][0] == "ok"]
            if not bool_steps:
                continue
            answers = {}
            for i in bool_steps:
                e = real[i][1]
                answers[i] = (claripy.is_true(e), claripy.is_false(e), e.is_true(), e.is_false())
                # model tie: the model's is_true is "the expression is the constant"
                if sers[i] is not None:
                    mt = sers[i] == ["BoolV", 1]
                    mf = sers[i] == ["BoolV", 0]
                    if (answers[i][0], answers[i][1]) != (mt, mf) and mismatch is None and not e.symbolic:
                        mismatch = {"expr": str(e), "claripy(is_true,is_false)": answers[i][:2], "model": (mt, mf)}
                stats["bool_exprs"] += 1
                if any(answers[i]):
                    stats["claimed"] += 1
                rep.count(("bool", e.hash()), nontrivial=e.depth > 1)
            claimed = [i for i in bool_steps if any(answers[i])]
            if not claimed:
                continue
            for (bvs, bools) in assignments(rng, bvn, booln, limit_bits=12, nrand=24):
                vals = progs.tree_values(drv, steps, names, bvs, bools)
                for i in claimed:
                    if vals[i] is None:
                        continue
                    t, f, mt_, mf_ = answers[i]
                    truth = vals[i][1] == 1
                    if ((t or mt_) and not truth) or ((f or mf_) and truth):
                        fail = {"what": "is_true/is_false claimed a value the written tree does not have", "step": i,
                                "expr": str(real[i][1]), "answers(is_true,is_false,Bool.is_true,Bool.is_false)": answers[i],
                                "assignment": {"bv": bvs, "bool": bools}, "tree_value": truth,
                                "program": [list(s) for s in steps]}
                        break
                if fail:
                    break
        # ---- solver-level is_true / is_false ----
        nsolv = 60 if tier == "quick" else 1500
        for k in range(nsolv):
            if fail or time.time() > t_end + 60:
                break
            cls = rng.choice([claripy.Solver, claripy.SolverCacheless, claripy.SolverComposite, claripy.SolverHybrid,
                              claripy.SolverReplacement])
            w = rng.choice([2, 3, 4])
            x = claripy.BVS("sx_%d" % w, w, explicit_name=True)
            y = claripy.BVS("sy_%d" % w, w, explicit_name=True)
            pool = [x + y, x & y, x ^ 1, x * 3, y - x, claripy.LShR(x, 1), x | y, ~y]
            cs = []
            for _ in range(rng.randrange(0, 4)):
                a, b = rng.choice(pool + [x, y]), rng.choice([claripy.BVV(rng.getrandbits(w), w), y, x])
                cs.append(rng.choice([a == b, a != b, claripy.ULT(a, b), claripy.SLE(a, b), claripy.UGE(a, b)]))
            s = cls()
            try:
                s.add(cs)
                qs = []
                for _ in range(6):
                    a, b = rng.choice(pool + [x, y]), rng.choice([claripy.BVV(rng.getrandbits(w), w), y])
                    q = rng.choice([a == b, a != b, claripy.ULE(a, b), claripy.SGT(a, b), claripy.Or(a == b, x == y)])
                    extra = [rng.choice([x != y, claripy.ULT(x, 2), y == 1])] if rng.random() < 0.4 else []
                    qs.append((q, extra))
                qs = qs + qs[:3]   # repeated queries hit the caches
                models = None
                for (q, extra) in qs:
                    t = s.is_true(q, extra_constraints=extra)
                    f = s.is_false(q, extra_constraints=extra)
                    stats["solver_queries"] += 1
                    rep.count(("solver", cls.__name__, str(q), str(extra), str(cs)), nontrivial=bool(cs))
                    if not (t or f):
                        continue
                    stats["solver_claimed"] += 1
                    # brute force: all assignments satisfying cs + extra
                    names = astio.Names()
                    sq = astio.ser(q, names)
                    scs = [astio.ser(c, names) for c in list(cs) + list(extra)]
                    ix, iy = names.id(x.args[0]), names.id(y.args[0])
                    for xv in range(1 << w):
                        for yv in range(1 << w):
                            env = [[ix, xv], [iy, yv]]
                            if all(progs.eval_ser(drv, c, env, []) == ["bool", 1] for c in scs):
                                qv = progs.eval_ser(drv, sq, env, [])
                                if (t and qv != ["bool", 1]) or (f and qv != ["bool", 0]):
                                    fail = {"what": "solver.is_true/is_false claimed a value that fails in a model",
                                            "solver": cls.__name__, "constraints": [str(c) for c in cs], "extra": [str(c) for c in extra],
                                            "query": str(q), "is_true": t, "is_false": f, "model": {"x": xv, "y": yv}}
                                    break
                        if fail:
                            break
                    if fail:
                        break
            except claripy.errors.UnsatError:
                stats["unsat"] += 1
            except claripy.errors.ClaripyError as ex:
                stats["solver_error:" + type(ex).__name__] += 1
        # ---- histories: is_true / is_false interleaved with adds and (exhausting) evaluations, all solver classes ----
        if not fail:
            import solverhist
            facs = [("Solver", lambda: claripy.Solver()), ("SolverCacheless", lambda: claripy.SolverCacheless()),
                    ("SolverComposite", lambda: claripy.SolverComposite())]
            hf = solverhist.run_histories(claripy, drv, rng, facs, 150 if tier == "quick" else 3000, 14, report=rep, tag="c10h",
                                          ops=["add", "add", "eval_bool", "eval_bool", "eval", "is_true", "is_true", "is_true",
                                               "satisfiable", "branch", "downsize"])
            if hf and ("is_true" in hf.get("what", "") or "is_false" in hf.get("what", "")):
                fail = hf
            if not fail:
                sf = solverhist.cache_scenarios(claripy, drv, rng, facs, 120 if tier == "quick" else 3000, report=rep, bool_only=True)
                if sf and ("is_true" in sf.get("what", "") or "is_false" in sf.get("what", "")):
                    fail = sf
            stats["histories"] += 200 if tier == "quick" else 3000
    rep.cov["rule"] = ("Boolean expressions from the C01 rule templates and random programs: every True answer of claripy.is_true/"
                       "is_false/Bool.is_true/Bool.is_false checked against the SMT-LIB value of the written tree on exhaustive "
                       "(<=12 bits) or 24 assignments; solver.is_true/is_false of 5 frontend classes on random 2-4-bit constraint sets "
                       "with and without extra constraints, repeated queries, every claimed answer checked in every model by "
                       "enumeration; distinct = distinct expression / query; non-trivial = depth>1 / non-empty constraint set")
    rep.cov["histogram"] = dict(stats)
    if stats["bool_exprs"] and len(rep.cov["samples"]) < 3:
        rep.sample({"bool_exprs": stats["bool_exprs"], "claimed": stats["claimed"], "solver_claimed": stats["solver_claimed"]})
    rep.cov["traces_validated_against_impl"] = stats["bool_exprs"] if not mismatch else 0
    if fail:
        rep.violation(fail)
    elif not proof_ok or mismatch or drv is None:
        rep.violation({"broken": {"obligations_not_discharged": [o for o in pr["obligations"] if not o["ok"]], "forbidden": forb,
                                  "model_mismatch": mismatch, "driver": None if okd else dlog[-800:],
                                  "coq_log_tail": pr.get("log", "")[-1200:]},
                       "note": "theorem or correspondence no longer checks; no wrongly claimed truth value found"}, found_input=False)
    if drv:
        drv.close()
    rep.cov["trusted_base"] = KERNEL_TB + [
        "Print Assumptions of Props/C10.v theorems: Closed under the global context",
        "theorems cover claripy.is_true/is_false (concrete backend path) through the construction model; the solver-level "
        "is_true/is_false (Z3 simplify(e).eq(True), frontend plumbing, caches) are covered by the enumeration test only",
    ]
    return rep.finish("proof")
