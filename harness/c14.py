"""C14: branches of a solver are isolated from each other.

Proof: Props/C14.v over the store of frontends (Model/Frontend.v): an operation on one solver leaves every other entry
unchanged; a branch starts as a copy; what a solver accepts changes only through its own additions.
Tie: random trees of real SolverCacheless/Solver objects driven by interleaved add/branch/query operations; every solver's
constraint list is compared with its entry in the extracted store after the whole history.
Search: (1) interleaved histories on trees of up to 6 branches of the exact solvers, every answer judged against the
enumeration of the solver's own constraints; (2) for every frontend class (also the approximate ones): each solver of the
tree must answer exactly like a replica that received only the operations of its own lineage.
"""
from __future__ import annotations

import collections
import json
import random
import sys

from common import KERNEL_TB, REPO, Driver, Report, build_driver, check_props, coq_make, regen_all, scan_forbidden
from c01 import BV_DRIVER

PROP = "C14"


def battery(claripy, u, s):
    """deterministic answers of a solver (exhaustive evaluations are compared as sets)"""
    out = []
    try:
        out.append(("sat", s.satisfiable()))
    except Exception as ex:  # noqa
        out.append(("sat", "exc:" + type(ex).__name__))
    for nm, e in (("x", u.x), ("y", u.y), ("z", u.z), ("x+y", u.x + u.y)):
        for what in ("min", "max"):
            try:
                out.append((what + nm, getattr(s, what)(e)))
            except Exception as ex:  # noqa
                out.append((what + nm, "exc:" + type(ex).__name__))
        try:
            r = sorted(s.eval(e, 40))
            out.append(("eval" + nm, r))
        except Exception as ex:  # noqa
            out.append(("eval" + nm, "exc:" + type(ex).__name__))
    for v in (0, 3, 9, 15):
        try:
            out.append(("sol%d" % v, s.solution(u.x, v)))
        except Exception as ex:  # noqa
            out.append(("sol%d" % v, "exc:" + type(ex).__name__))
    return out


def main(tier, seed, replay=None):
    sys.path.insert(0, REPO)
    import astio
    import claripy
    import solverhist
    rep = Report(PROP, tier, seed)
    rng = random.Random(seed)
    if replay:
        r = json.load(open(replay))
        print("replay file records:", json.dumps(r, default=str)[:1500])
        return 1
    regen_all()
    ok_make, log = coq_make(["Proofs/FrontendSound.vo"])
    pr = check_props(PROP) if ok_make else {"ok": False, "obligations": [
        {"name": "C14_*", "closed": False, "axioms": ["<does not compile>"], "ok": False}], "log": log[-3000:]}
    rep.obligations(pr, "make Proofs/FrontendSound.vo && coqc -R coq CV coq/Props/C14.v (Print Assumptions)")
    forb = scan_forbidden()
    proof_ok = pr["ok"] and not forb
    okd, dlog = build_driver(*BV_DRIVER)
    stats = collections.Counter()
    fail = mismatch = None
    drv = Driver("bvdriver") if okd else None
    if drv is not None:
        # ---------- (0) store correspondence ----------
        for it in range(40 if tier == "quick" else 1500):
            if mismatch:
                break
            u = solverhist.Universe(claripy, drv, tag="st%d_" % (it % 5))
            forms = solverhist.constraint_pool(u, rng)
            cls = rng.choice([claripy.SolverCacheless, claripy.SolverCacheless, claripy.Solver])
            real = {0: cls()}
            ops = []
            for _ in range(rng.randrange(3, 14)):
                i = rng.choice(sorted(real))
                r = rng.random()
                if r < 0.5:
                    cs = [rng.choice([lambda: rng.choice(forms)(), claripy.true, claripy.false, lambda: rng.choice(forms)()])()
                          for _ in range(rng.randrange(1, 3))]
                    real[i].add(cs)
                    ops.append(["add", i, [astio.ser(c, u.names) for c in cs]])
                elif r < 0.8 and len(real) < 6:
                    j = len(real)
                    real[j] = real[i].branch()
                    ops.append(["branch", i, j])
                else:
                    real[i].satisfiable()
                    if cls is claripy.SolverCacheless:
                        try:
                            real[i].eval(u.x, 3)
                        except claripy.errors.UnsatError:
                            pass
                    ops.append(["query", i])
            try:
                m = drv.ask(["store_run", ops])
            except Exception as ex:  # noqa
                mismatch = {"kind": "model failed", "error": repr(ex)}
                break
            stats["store_histories"] += 1
            rep.count(case_key=("store", seed, it))
            for ent in m:
                k = int(ent[0])
                want = astio.norm(ent[1][0])
                try:
                    got = [astio.ser(c, u.names) for c in real[k].constraints]
                except astio.Unser:
                    continue
                stats["store_entries_compared"] += 1
                if got != want:
                    mismatch = {"kind": "model/implementation mismatch", "what": "constraints of solver %d after the history" % k,
                                "class": cls.__name__, "ops": ops, "model": want, "real": got}
                    break
        # ---------- (1) exact solvers: branch-heavy interleaved histories against enumeration ----------
        facs = [("Solver", lambda: claripy.Solver()), ("SolverCacheless", lambda: claripy.SolverCacheless()),
                ("SolverComposite", lambda: claripy.SolverComposite())]
        ops1 = ["add", "add", "add", "branch", "branch", "satisfiable", "eval", "eval", "batch_eval", "min", "max", "solution",
                "is_true", "simplify", "downsize", "eval_bool"]
        n1 = 160 if tier == "quick" else 3000
        fail = solverhist.run_histories(claripy, drv, rng, facs, n1, 22, report=rep, tag="c14", ops=ops1, max_solvers=6)
        stats["tree_histories_exact"] += n1
        # ---------- (2) every frontend class: a solver of the tree answers like a replica of its own lineage ----------
        allfacs = facs + [("SolverReplacement", lambda: claripy.SolverReplacement()), ("SolverHybrid", lambda: claripy.SolverHybrid()),
                          ("SolverVSA", lambda: claripy.SolverVSA())]
        n2 = 80 if tier == "quick" else 1500
        for it in range(n2):
            if fail:
                break
            label, fac = rng.choice(allfacs)
            u = solverhist.Universe(claripy, drv, tag="tw%d_" % (it % 5))
            forms = solverhist.constraint_pool(u, rng)
            exprs = solverhist.expr_pool(u, rng)
            tree = {0: fac()}
            parent = {0: None}
            hist = []     # (solver, kind, payload)
            for _ in range(rng.randrange(4, 16)):
                i = rng.choice(sorted(tree))
                r = rng.random()
                try:
                    if r < 0.4:
                        c = rng.choice(forms)()
                        hist.append((i, "add", c))
                        tree[i].add(c)
                    elif r < 0.6 and len(tree) < 5:
                        j = len(tree)
                        hist.append((i, "branch", j))
                        tree[j] = tree[i].branch()
                        parent[j] = i
                    else:
                        q = rng.choice(["sat", "min", "max", "eval", "simplify"])
                        e = rng.choice(exprs)
                        hist.append((i, q, e))
                        if q == "sat":
                            tree[i].satisfiable()
                        elif q == "simplify":
                            tree[i].simplify()
                        elif q == "eval":
                            tree[i].eval(e, rng.choice([1, 2, 20]))
                        else:
                            getattr(tree[i], q)(e)
                except claripy.errors.ClaripyError:
                    hist[-1] = hist[-1] + ("raised",)
                except Exception:  # noqa  (approximate frontends raise assorted exceptions; isolation is judged on the final answers)
                    hist[-1] = hist[-1] + ("raised",)
            stats["twin_histories_" + label] += 1
            rep.count(case_key=("twin", seed, it))
            # replicas: replay the lineage of k only
            for k in sorted(tree):
                lineage = []
                a = k
                while a is not None:
                    lineage.append(a)
                    a = parent[a]
                # operations of ancestor a count only up to the moment the next solver of the lineage was branched off it
                rep_s = fac()
                cur = lineage[-1]
                chain = list(reversed(lineage))
                pos = 0
                for (i, kind, payload, *flag) in hist:
                    if i != cur:
                        continue
                    try:
                        if kind == "add":
                            rep_s.add(payload)
                        elif kind == "branch":
                            if pos + 1 < len(chain) and payload == chain[pos + 1]:
                                rep_s = rep_s.branch()
                                pos += 1
                                cur = chain[pos]
                            else:
                                rep_s.branch()      # a sibling is created and left alone
                        elif kind == "sat":
                            rep_s.satisfiable()
                        elif kind == "simplify":
                            rep_s.simplify()
                        elif kind == "eval":
                            rep_s.eval(payload, 20)
                        else:
                            getattr(rep_s, kind)(payload)
                    except Exception:  # noqa
                        pass
                b1, b2 = battery(claripy, u, tree[k]), battery(claripy, u, rep_s)
                stats["twin_solvers_compared"] += 1
                if b1 != b2:
                    diff = [(x, y) for x, y in zip(b1, b2) if x != y][:4]
                    fail = {"what": "solver %d of the tree answers differently from a replica that saw only its own lineage" % k,
                            "class": label, "history": [(i, kind, str(p)) for (i, kind, p, *_) in hist], "differences": [str(d) for d in diff]}
                    break
    rep.cov["rule"] = ("(0) random add/branch/query histories on trees of SolverCacheless/Solver: every solver's constraint list against the "
                       "extracted store; (1) 22-step interleaved histories on trees of up to 6 branches of Solver, SolverCacheless, "
                       "SolverComposite, every answer against enumeration of the solver's own constraints; (2) trees of up to 5 branches of "
                       "all six frontend classes: final answers (sat, min/max/eval of four expressions, solution) of each solver against a "
                       "replica fed only its lineage")
    rep.cov["histogram"] = dict(stats)
    rep.cov["traces_validated_against_impl"] = stats["store_entries_compared"] if not mismatch else 0
    if fail:
        rep.violation(fail)
    elif not proof_ok or mismatch or drv is None:
        rep.violation({"broken": {"obligations_not_discharged": [o for o in pr["obligations"] if not o["ok"]], "forbidden": forb,
                                  "model_mismatch": mismatch, "driver": None if okd else dlog[-800:],
                                  "coq_log_tail": pr.get("log", "")[-1200:]},
                       "note": "theorem or correspondence no longer checks; the history tests found no wrong answer"},
                      found_input=False)
    if drv:
        drv.close()
    rep.cov["trusted_base"] = KERNEL_TB + [
        "Print Assumptions of Props/C14.v theorems: Closed under the global context",
        "the theorems are about the functional store of Model/Frontend.v; that the real objects (which share Z3 solvers, model "
        "caches and composite children between branches) refine it is established by correspondence and history tests, not by proof",
    ]
    rep.assumptions = ["Z3 answers truthfully and deterministically for exhaustive queries"]
    return rep.finish("proof")
