"""C01 -- expressions mean what the written operations say.

Proof: Props/C01.v (C01_build_sound, C01_tree over Model/Build.v; C01b_* over Gen/BvConcrete.v).
Tie:   (T) Gen/BvConcrete.v regenerated from bv.py, every generated function run against the real one;
       (C) one-step correspondence: every construction step of random operation programs is built by the
           real claripy and by the extracted model from the same (serialised) operands, results compared
           structurally.
Direct property test (the search, and the cover for code paths the model marks Unmodelled): the real AST is
evaluated with the extracted Spec evaluator and compared with the value of the written tree, on exhaustive or
random assignments."""
from __future__ import annotations

import collections
import itertools
import json
import os
import random
import sys
import time

from common import (KERNEL_TB, REPO, Driver, Report, build_driver, driver_binary_exists, check_props, coq_make, known_findings, regen_all,
                    scan_forbidden)

PROP = "C01"
BV_DRIVER = ("bvdriver", "ExtractBv", ["bvmodel"], ["Model/Build.vo", "Model/PyPrelude.vo", "Model/Ast.vo", "Model/Rewrite.vo", "Model/Solve.vo", "Model/Frontend.vo", "Model/Numeral.vo", "Model/Annot.vo", "Model/HashCons.vo", "Model/Pickle.vo", "Model/Z3Stack.vo", "Model/Str.vo", "Model/Tls.vo", "Model/AbsInt.vo", "Model/Balance.vo", "Model/Replace.vo", "Model/Track.vo", "Model/CompCache.vo", "Gen/BvConcrete.vo"])


# ------------------------------------------------------------------------------------------------
# (T) translator validation + concrete folding against the spec
# ------------------------------------------------------------------------------------------------

BIN_FNS = ["__add__", "__sub__", "__mul__", "__mod__", "__floordiv__", "__and__", "__or__", "__xor__", "__lshift__",
           "__rshift__", "SDiv", "SMod", "LShR", "RotateLeft", "RotateRight"]
CMP_FNS = ["__eq__", "__ne__", "ULT", "ULE", "UGT", "UGE", "SLT", "SLE", "SGT", "SGE"]
SPEC_OP = {"__add__": "__add__", "__sub__": "__sub__", "__mul__": "__mul__", "__mod__": "__mod__",
           "__floordiv__": "__floordiv__", "__and__": "__and__", "__or__": "__or__", "__xor__": "__xor__",
           "__lshift__": "__lshift__", "__rshift__": "__rshift__", "SDiv": "SDiv", "SMod": "SMod", "LShR": "LShR",
           "RotateLeft": "RotateLeft", "RotateRight": "RotateRight"}


def real_bv_call(bv, name, args):
    """Call the real backend_concrete/bv.py function; -> ('ok', (v, bits)) | ('okb', bool) | ('err'|'crash', name)"""
    import claripy.errors as ce
    try:
        objs = [bv.BVV(a[0], a[1]) if isinstance(a, tuple) else a for a in args]
        if name.startswith("__") and name not in ("__invert__", "__neg__"):
            r = getattr(objs[0], name)(objs[1])
        elif name in ("__invert__", "__neg__"):
            r = getattr(objs[0], name)()
        elif name == "signed":
            return ("oki", objs[0].signed)
        elif name == "Concat":
            r = bv.Concat(*objs)
        else:
            r = getattr(bv, name)(*objs)
        if isinstance(r, bool):
            return ("okb", r)
        if r is NotImplemented:
            return ("crash", "NotImplemented")
        return ("ok", (r.value, r.bits))
    except ce.ClaripyZeroDivisionError:
        return ("err", "ZeroDiv")
    except ce.ClaripyTypeError:
        return ("err", "TypeErr")
    except ce.ClaripyOperationError:
        return ("err", "OpErr")
    except ZeroDivisionError:
        return ("crash", "ZeroDivisionError")
    except (MemoryError, OverflowError):
        return ("crash", "MemoryError")
    except BaseException as ex:  # noqa
        return ("crash", type(ex).__name__)


def model_bv_call(drv, name, args):
    sargs = [[a[0], a[1]] if isinstance(a, tuple) else a for a in args]
    r = drv.ask(["bv", name] + sargs)
    if r[0] == "ok":
        x = r[1]
        if isinstance(x, list):
            return ("ok", (int(x[0]), int(x[1])))
        if name == "signed":
            return ("oki", int(x))
        return ("okb", x == "1")
    if r[0] == "err":
        return ("err", r[1])
    if r[0] == "crash":
        return ("crash", r[1])
    return (r[0], None)


def gen_bv_cases(rng, tier):
    cases = []
    # exhaustive at small widths
    maxw = 3 if tier == "quick" else 4
    for w in range(1, maxw + 1):
        for a in range(1 << w):
            for b in range(1 << w):
                for f in BIN_FNS + CMP_FNS:
                    cases.append((f, [(a, w), (b, w)]))
            for f in ("__invert__", "__neg__", "signed"):
                cases.append((f, [(a, w)]))
            for n in range(0, 3):
                cases.append(("ZeroExt", [n, (a, w)]))
                cases.append(("SignExt", [n, (a, w)]))
            for hi in range(w):
                for lo in range(hi + 1):
                    cases.append(("Extract", [hi, lo, (a, w)]))
    # boundary / random at larger widths
    from astio import WIDTHS, const_pool
    nrand = 1500 if tier == "quick" else 20000
    for _ in range(nrand):
        w = rng.choice(WIDTHS + [24, 48, 256])
        a, b = const_pool(w, rng), const_pool(w, rng)
        f = rng.choice(BIN_FNS + CMP_FNS)
        cases.append((f, [(a, w), (b, w)]))
        if rng.random() < 0.2:
            cases.append((rng.choice(["__invert__", "__neg__", "signed"]), [(a, w)]))
        if rng.random() < 0.2:
            hi = rng.randrange(w)
            lo = rng.randrange(hi + 1)
            cases.append(("Extract", [hi, lo, (a, w)]))
        if rng.random() < 0.15:
            w2 = rng.choice([1, 8, 16, 33])
            cases.append(("Concat", [(a, w), (const_pool(w2, rng), w2)] + ([(b, w)] if rng.random() < 0.3 else [])))
        if rng.random() < 0.1 and w % 8 == 0:
            cases.append(("Reverse", [(a, w)]))
        if rng.random() < 0.05:
            cases.append((rng.choice(BIN_FNS), [(a, w), (b, w + 1)]))  # size mismatch -> TypeErr
    return cases


def spec_value(drv, f, args):
    """The SMT-LIB value of the operation, from the extracted Spec (through eval_op)."""
    def val(a):
        return ["bv", a[1], a[0]]
    if f in ("signed",):
        return None
    if f in ("ZeroExt", "SignExt"):
        r = drv.ask(["evalop", f, [args[0]], [val(args[1])]])
    elif f == "Extract":
        r = drv.ask(["evalop", f, [args[0], args[1]], [val(args[2])]])
    else:
        r = drv.ask(["evalop", f, [], [val(a) for a in args]])
    return r


def check_bvconcrete(rep, drv, rng, tier):
    import claripy.backends.backend_concrete.bv as bv
    cases = gen_bv_cases(rng, tier)
    hist = collections.Counter()
    tv_mismatch = None
    spec_fail = None
    for (f, args) in cases:
        real = real_bv_call(bv, f, args)
        mod = model_bv_call(drv, f, args)
        hist[f] += 1
        rep.count(("bv", f, tuple(map(str, args))), nontrivial=(real[0] in ("ok", "okb", "oki")))
        if real != mod and tv_mismatch is None:
            # the generated function must behave as the real one (crash kinds are compared loosely)
            if not (real[0] == "crash" and mod[0] == "crash"):
                tv_mismatch = {"function": f, "args": [list(a) if isinstance(a, tuple) else a for a in args],
                               "real": real, "generated": mod}
        # direct property: concrete folding == SMT-LIB (division by zero exempt)
        if real[0] in ("ok", "okb") and f != "signed":
            sv = spec_value(drv, f, args)
            if sv[0] == "bv":
                exp = ("ok", (int(sv[2]), int(sv[1])))
            elif sv[0] == "bool":
                exp = ("okb", sv[1] == "1")
            else:
                exp = None  # ill-typed for the spec (e.g. Reverse of a non-byte width): no expectation
            if exp is not None and exp != real and spec_fail is None:
                spec_fail = {"kind": "concrete-fold", "function": f,
                             "args": [list(a) if isinstance(a, tuple) else a for a in args],
                             "claripy": real, "smtlib": exp}
        elif real[0] == "crash" and spec_fail is None:
            spec_fail = {"kind": "concrete-fold-crash", "function": f,
                         "args": [list(a) if isinstance(a, tuple) else a for a in args], "claripy": real}
    return hist, tv_mismatch, spec_fail


# ------------------------------------------------------------------------------------------------
# (C) one-step correspondence and the direct property test on operation programs
# ------------------------------------------------------------------------------------------------

def assignments(rng, names_bv, names_bool, limit_bits=12, nrand=16):
    """names_bv: {id: width}.  Exhaustive when the total number of variable bits is small."""
    total = sum(names_bv.values()) + len(names_bool)
    if total <= limit_bits:
        ids = list(names_bv.items())
        for combo in itertools.product(*[range(1 << w) for _, w in ids]):
            for bcombo in itertools.product([0, 1], repeat=len(names_bool)):
                yield ([[i, v] for (i, _), v in zip(ids, combo)], [[i, b] for i, b in zip(names_bool, bcombo)])
        return
    for k in range(nrand):
        bvs = []
        for i, w in names_bv.items():
            if k == 0:
                v = 0
            elif k == 1:
                v = (1 << w) - 1
            elif k == 2:
                v = 1 << (w - 1)
            else:
                v = rng.getrandbits(w) if rng.random() < 0.7 else rng.choice([1, 2, w, w - 1, (1 << (w - 1)) - 1]) & ((1 << w) - 1)
            bvs.append([i, v])
        yield (bvs, [[i, rng.getrandbits(1)] for i in names_bool])


def run_program(drv, steps, names, rng, stats, check_semantics=True):
    """Build the program on the real claripy and on the model.  Returns (mismatch, semantic_failure)."""
    import astio
    import claripy
    real = []      # ('ok', ast) | ('err', name) | ('skip', None)
    sers = []      # serialised real result (or None)
    mismatch = None
    for idx, st in enumerate(steps):
        if st[0] == "leaf":
            a = astio.make_leaf(st)
            real.append(("ok", a))
            sers.append(astio.ser(a, names))
            continue
        _, op, ints, refs, w = st
        if any(real[r][0] != "ok" for r in refs):
            real.append(("skip", None))
            sers.append(None)
            continue
        args = [real[r][1] for r in refs]
        try:
            r = ("ok", astio.apply_op(op, ints, args))
        except Exception as ex:  # noqa
            r = astio.classify_exc(ex)
        real.append(r)
        try:
            sres = astio.ser(r[1], names) if r[0] == "ok" else None
        except astio.Unser:
            sres = None
            stats["unserialisable"] += 1
        sers.append(sres)
        sargs = [sers[x] for x in refs]
        if any(x is None for x in sargs):
            continue
        m = drv.ask(["mk", op, ints, sargs])
        if m[0] == "err" and m[1] == "Unmodelled":
            stats["unmodelled:" + op] += 1
            continue
        stats["modelled:" + op] += 1
        if m[0] == "ok":
            same = r[0] == "ok" and astio.norm(m[1]) == sres
        elif m[0] in ("err", "crash"):
            same = r[0] == m[0] and (r[1] == m[1] or m[0] == "crash")
        else:
            same = False
        if not same and mismatch is None:
            mismatch = {"step": idx, "op": op, "ints": ints, "operands": [str(a) for a in args],
                        "claripy": str(r[1]) if r[0] == "ok" else list(r), "model": m}
    if not check_semantics:
        return mismatch, None
    # direct property test: value of the real AST vs value of the written tree, with the extracted Spec evaluator
    bvn = {}
    booln = []
    for st in steps:
        if st[0] == "leaf" and st[1] == "BVS":
            bvn[names.id(st[3][0])] = st[4]
        elif st[0] == "leaf" and st[1] == "BoolS":
            booln.append(names.id(st[3][0]))
    sem_fail = None
    for (bvs, bools) in assignments(rng, bvn, booln):
        vals = []
        for idx, st in enumerate(steps):
            if st[0] == "leaf":
                if st[1] == "BVS":
                    v = dict((i, x) for i, x in bvs)[names.id(st[3][0])]
                    vals.append(["bv", st[4], v])
                elif st[1] == "BoolS":
                    vals.append(["bool", dict((i, x) for i, x in bools)[names.id(st[3][0])]])
                elif st[1] == "BoolV":
                    vals.append(["bool", 1 if st[3][0] else 0])
                else:
                    vals.append(["bv", st[4], st[3][0]])
                continue
            _, op, ints, refs, w = st
            if any(vals[r] is None for r in refs):
                vals.append(None)
                continue
            ev = drv.ask(["evalop", op, ints, [vals[r] for r in refs]])
            if ev[0] == "none":
                vals.append(None)   # ill-typed for the spec: nothing to compare
                continue
            expected = ["bv", int(ev[1]), int(ev[2])] if ev[0] == "bv" else ["bool", int(ev[1])]
            # SMT-LIB gives division by zero a value; claripy raises when it folds concretely (exempt)
            vals.append(expected)
            if real[idx][0] != "ok" or sers[idx] is None:
                continue
            got = drv.ask(["eval", sers[idx], bvs, bools])
            g = ["bv", int(got[1]), int(got[2])] if got[0] == "bv" else (["bool", int(got[1])] if got[0] == "bool" else None)
            stats["semantic_checks"] += 1
            if g != expected and sem_fail is None:
                sem_fail = {"kind": "semantic", "step": idx, "op": op, "ints": ints,
                            "expression": str(real[idx][1]), "assignment": {"bv": bvs, "bool": bools},
                            "smtlib_value_of_written_tree": expected, "value_of_claripy_expression": g}
        if sem_fail:
            break
    return mismatch, sem_fail


TEMPLATE_RULES = [
    # (name, builder(rng, w) -> steps appended after leaves).  Each exercises one rewrite rule at varied widths/constants.
    "shl_shl", "mask_xor_eq", "mask_xor_ne", "invert_if", "rotate_mask", "sub_eq", "sub_add", "add_sub", "sub_sub",
    "if_nest", "and_ones", "xor_self", "or_zero", "cmp_if", "not_cmp", "ext_zero", "shift_zero", "bool_consts",
    "extract_concat", "extract_extract", "concat_concat", "zeroext_cmp", "and_mask_cmp", "extract_zeroext_cmp", "minmax",
]


def template_program(rng, name):
    from astio import WIDTHS, const_pool
    w = rng.choice([1, 2, 3, 4, 8, 9, 16, 32, 33, 64, 65])
    S = []   # steps

    def leaf_bvs(nm, ww=None):
        S.append(("leaf", "BVS", [], ["%s_%d" % (nm, ww or w)], ww or w))
        return len(S) - 1

    def leaf_bool(nm):
        S.append(("leaf", "BoolS", [], [nm], -1))
        return len(S) - 1

    def c(v, ww=None):
        ww = ww or w
        S.append(("leaf", "BVV", [], [v & ((1 << ww) - 1)], ww))
        return len(S) - 1

    def op(o, ints, refs, ww):
        S.append(("op", o, ints, refs, ww))
        return len(S) - 1

    x, y = leaf_bvs("x"), leaf_bvs("y")
    cb, db = leaf_bool("c"), leaf_bool("d")
    k1, k2 = const_pool(w, rng), const_pool(w, rng)
    if name == "shl_shl":
        a = op("__lshift__", [], [x, c(k1)], w)
        op("__lshift__", [], [a, c(k2)], w)
        a2 = op("__lshift__", [], [x, y], w)
        op("__lshift__", [], [a2, c(k2)], w)
    elif name in ("mask_xor_eq", "mask_xor_ne"):
        m = rng.choice([1 << rng.randrange(w), k1, 3, 0, 1])
        a = op("__and__", [], [x, c(m)] if rng.random() < 0.5 else [c(m), x], w)
        b = op("__xor__", [], [a, c(m)], w)
        op("__eq__" if name == "mask_xor_eq" else "__ne__", [], [b, c(0)], -1)
        b2 = op("__xor__", [], [x, c(1)], w)
        op("__eq__" if name == "mask_xor_eq" else "__ne__", [], [b2, c(0)], -1)
    elif name == "invert_if":
        i = op("If", [], [cb, c(1), c(0)], w)
        op("__invert__", [], [i], w)
        i2 = op("If", [], [cb, c(1), y], w)
        op("__invert__", [], [i2], w)
    elif name == "rotate_mask":
        ww = rng.choice([32, 64, 16, 48])
        xx = leaf_bvs("r", ww)
        l = rng.choice([3, 8, 16, 5, 24])
        rr = rng.choice([ww - l, 32 - l, 64 - l, 16])
        if rr <= 0:
            rr = 1
        sl = op("__lshift__", [], [xx, c(l, ww)], ww)
        sr = op("LShR", [], [xx, c(rr, ww)], ww)
        o = op("__or__", [], [sl, sr], ww)
        mask = rng.choice([0xFFFF << l, 0xFFFFFFFF << l, 0xffff0000, 0x7FFFFFFF8, (1 << ww) - 1, 0xff00])
        op("__and__", [], [o, c(mask, ww)], ww)
    elif name == "sub_eq":
        a = op("__sub__", [], [x, c(k1)], w)
        op("__eq__", [], [a, c(k2)], -1)
        op("__ne__", [], [a, c(k2)], -1)
    elif name == "sub_add":
        a = op("__sub__", [], [x, c(k1)], w)
        op("__add__", [], [a, c(k2)], w)
    elif name == "add_sub":
        a = op("__add__", [], [x, c(k1)], w)
        op("__sub__", [], [a, c(k2)], w)
        b = op("__add__", [], [a, y], w)
        op("__sub__", [], [b, c(k2)], w)
    elif name == "sub_sub":
        a = op("__sub__", [], [x, c(k1)], w)
        op("__sub__", [], [a, c(k2)], w)
        op("__sub__", [], [a, a], w)
    elif name == "if_nest":
        nc = op("Not", [], [cb], -1)
        i1 = op("If", [], [rng.choice([cb, nc, db]), x, y], w)
        op("If", [], [cb, i1, c(k1)], w)
        op("If", [], [cb, c(k1), i1], w)
        op("If", [], [cb, x, x], w)
    elif name == "and_ones":
        op("__and__", [], [x, c(-1)], w)
        op("__and__", [], [c(0), x], w)
        op("__and__", [], [x, x], w)
        a = op("__and__", [], [x, y], w)
        op("__and__", [], [a, x], w)
    elif name == "xor_self":
        op("__xor__", [], [x, x], w)
        op("__xor__", [], [x, c(0)], w)
        a = op("__xor__", [], [x, y], w)
        op("__xor__", [], [a, y], w)
    elif name == "or_zero":
        op("__or__", [], [x, c(0)], w)
        op("__or__", [], [x, x], w)
        a = op("__or__", [], [x, c(k1)], w)
        op("__or__", [], [a, c(k2)], w)
    elif name == "cmp_if":
        i = op("If", [], [cb, c(k1), c(k2)], w)
        op("__eq__", [], [i, c(k1)], -1)
        op("__ne__", [], [i, c(k2)], -1)
        op("__eq__", [], [c(k2), i], -1)
        i2 = op("If", [], [cb, x, c(k2)], w)
        op("__eq__", [], [i2, x], -1)
    elif name == "not_cmp":
        cmpop = rng.choice(["__eq__", "__ne__", "ULT", "ULE", "UGT", "UGE", "SLT", "SLE", "SGT", "SGE"])
        a = op(cmpop, [], [x, rng.choice([y, c(k1)])], -1)
        n = op("Not", [], [a], -1)
        op("Not", [], [n], -1)
    elif name == "ext_zero":
        op("ZeroExt", [0], [x], w)
        op("SignExt", [0], [x], w)
        z = op("ZeroExt", [3], [x], w + 3)
        op("ZeroExt", [2], [z], w + 5)
    elif name == "shift_zero":
        for o in ("__lshift__", "__rshift__", "LShR"):
            op(o, [], [x, c(0)], w)
            op(o, [], [x, c(rng.choice([w, w - 1, w + 1, (1 << w) - 1]))], w)
        z = op("ZeroExt", [4], [x], w + 4)
        op("LShR", [], [z, c(w + 1, w + 4)], w + 4)
        op("__rshift__", [], [z, c(w + 1, w + 4)], w + 4)
        cc = op("Concat", [], [c(0, 4), x], w + 4)
        op("LShR", [], [cc, c(w + 1, w + 4)], w + 4)
        op("__rshift__", [], [cc, c(w + 2, w + 4)], w + 4)
    elif name == "bool_consts":
        t = len(S)
        S.append(("leaf", "BoolV", [], [True], -1))
        f = len(S)
        S.append(("leaf", "BoolV", [], [False], -1))
        op("And", [], [cb, t], -1)
        op("And", [], [cb, f], -1)
        op("Or", [], [cb, t], -1)
        op("Or", [], [cb, f], -1)
        a = op("And", [], [cb, db], -1)
        op("And", [], [a, cb], -1)
        op("__eq__", [], [cb, t], -1)
        op("__eq__", [], [f, cb], -1)
        e1 = op("__eq__", [], [x, c(k1)], -1)
        e2 = op("__eq__", [], [x, c(k2)], -1)
        op("And", [], [e1, e2], -1)
        g = op("UGE", [], [x, y], -1)
        n = op("__ne__", [], [x, y], -1)
        op("And", [], [g, n], -1)
    elif name == "extract_concat":
        w2 = rng.choice([1, 4, 8, 16])
        z = leaf_bvs("z", w2)
        cc = op("Concat", [], [x, z], w + w2)
        tot = w + w2
        hi = rng.randrange(tot)
        lo = rng.randrange(hi + 1)
        op("Extract", [hi, lo], [cc], hi - lo + 1)
        op("Extract", [w2 - 1, 0], [cc], w2)
        op("Extract", [tot - 1, w2], [cc], w)
    elif name == "extract_extract":
        if w >= 3:
            hi = rng.randrange(1, w)
            lo = rng.randrange(hi)
            e = op("Extract", [hi, lo], [x], hi - lo + 1)
            h2 = rng.randrange(hi - lo + 1)
            l2 = rng.randrange(h2 + 1)
            op("Extract", [h2, l2], [e], h2 - l2 + 1)
        op("Extract", [w - 1, 0], [x], w)
        z = op("ZeroExt", [5], [x], w + 5)
        op("Extract", [w - 1, 0], [z], w)
        op("Extract", [w + 2, 1], [z], w + 2)
        a = op("__and__", [], [x, c(k1)], w)
        op("Extract", [w - 1, w // 2], [a], w - w // 2)
        n = op("__invert__", [], [x], w)
        op("Extract", [0, 0], [n], 1)
    elif name == "concat_concat":
        a = op("Concat", [], [x, y], 2 * w)
        op("Concat", [], [a, c(k1)], 3 * w)
        b = op("Concat", [], [c(k1), c(k2)], 2 * w)
        op("Concat", [], [x, b], 3 * w)
        if w >= 2:
            e1 = op("Extract", [w - 1, w // 2], [x], w - w // 2)
            e2 = op("Extract", [w // 2 - 1, 0], [x], w // 2)
            op("Concat", [], [e1, e2], w)
    elif name == "zeroext_cmp":
        n = rng.choice([1, 4, 8])
        z = op("ZeroExt", [n], [x], w + n)
        k = rng.choice([k1, k1 | (1 << w), (1 << (w + n)) - 1, 0])
        for o in ("__eq__", "__ne__", "UGE"):
            op(o, [], [z, c(k, w + n)], -1)
        cc = op("Concat", [], [c(0, n), x], w + n)
        op("__eq__", [], [cc, c(k, w + n)], -1)
    elif name == "and_mask_cmp":
        m = rng.choice([(1 << rng.randrange(1, w + 1)) - 1, k1, 0xff, 0])
        a = op("__and__", [], [x, c(m)], w)
        op("__eq__", [], [a, c(k2)], -1)
        op("__ne__", [], [a, c(k2 & m)], -1)
    elif name == "extract_zeroext_cmp":
        n = rng.choice([1, 8])
        z = op("ZeroExt", [n], [x], w + n)
        hi = rng.randrange(max(1, w - 1), w + n)
        e = op("Extract", [hi, 0], [z], hi + 1)
        op("__eq__", [], [e, c(k1, hi + 1)], -1)
    elif name == "minmax":
        # signed max/min idiom:  s=q-r;t=q^r;u=s^q;v=u&t;w=v^s;x=rshift(w,b-1);y=x&t;z=q^y
        q, r = x, y
        s = op("__sub__", [], [q, r] if rng.random() < 0.5 else [r, q], w)
        t = op("__xor__", [], [q, r], w)
        u = op("__xor__", [], [s, rng.choice([q, r])], w)
        v = op("__and__", [], [u, t], w)
        ww_ = op("__xor__", [], [v, s], w)
        xs = op("__rshift__", [], [ww_, c(w - 1)], w)
        yy = op("__and__", [], [xs, t], w)
        op("__xor__", [], [q, yy], w)
    return S


def plumbing_cases(rng):
    """Reversed operators with Python ints, slices, If with ints/bools: (expression builder, reference tree)."""
    import claripy
    from astio import const_pool
    out = []
    w = rng.choice([1, 4, 8, 9, 32, 64])
    x = claripy.BVS("px_%d" % w, w, explicit_name=True)
    cb = claripy.BoolS("pc", explicit_name=True)
    k = const_pool(w, rng)
    big = k + (1 << w) * rng.randrange(0, 3) - (rng.randrange(2) << w)
    m = (1 << w) - 1
    X = ("x",)
    K = ("k", big & m)
    tests = [
        (lambda: big + x, ("__add__", [], [K, X])), (lambda: x + big, ("__add__", [], [X, K])),
        (lambda: big - x, ("__sub__", [], [K, X])), (lambda: x - big, ("__sub__", [], [X, K])),
        (lambda: big * x, ("__mul__", [], [K, X])), (lambda: big & x, ("__and__", [], [K, X])),
        (lambda: big | x, ("__or__", [], [K, X])), (lambda: big ^ x, ("__xor__", [], [K, X])),
        (lambda: big // x, ("__floordiv__", [], [K, X])), (lambda: x // big, ("__floordiv__", [], [X, K])),
        (lambda: big % x, ("__mod__", [], [K, X])), (lambda: x % big, ("__mod__", [], [X, K])),
        (lambda: x << (big & 7), ("__lshift__", [], [X, ("k", big & 7 & m)])),   # ints are coerced to BVV(k mod 2^w)
        (lambda: x >> (big & 7), ("__rshift__", [], [X, ("k", big & 7 & m)])),
        (lambda: (big & m) << x, ("__lshift__", [], [K, X])), (lambda: (big & m) >> x, ("__rshift__", [], [K, X])),
        (lambda: x == big, ("__eq__", [], [X, K])), (lambda: x != big, ("__ne__", [], [X, K])),
        (lambda: x > big, ("UGT", [], [X, K])), (lambda: x >= big, ("UGE", [], [X, K])),
        (lambda: x < big, ("ULT", [], [X, K])), (lambda: x <= big, ("ULE", [], [X, K])),
        (lambda: claripy.If(cb, big & m, x), ("If", [], [("c",), K, X])),
        (lambda: claripy.If(cb, x, big & m), ("If", [], [("c",), X, K])),
        (lambda: claripy.If(True, x, big & m), ("If", [], [("t",), X, K])),
        (lambda: claripy.If(False, x, big & m), ("If", [], [("f",), X, K])),
        (lambda: x[w - 1:0], ("Extract", [w - 1, 0], [X])),
        (lambda: x[w - 1], ("Extract", [w - 1, w - 1], [X])),
        (lambda: x[0], ("Extract", [0, 0], [X])),
        (lambda: x[:], ("Extract", [w - 1, 0], [X])),
        (lambda: x[-1:], ("Extract", [w - 1, 0], [X])),
        (lambda: x[w // 2:], ("Extract", [w // 2, 0], [X])),
        (lambda: x[:w // 2], ("Extract", [w - 1, w // 2], [X])),
        (lambda: x.zero_extend(3), ("ZeroExt", [3], [X])), (lambda: x.sign_extend(3), ("SignExt", [3], [X])),
        (lambda: x.concat(big & m), None),
        (lambda: -x, ("__neg__", [], [X])), (lambda: ~x, ("__invert__", [], [X])),
        (lambda: x.SDiv(big & m), ("SDiv", [], [X, K])), (lambda: x.SMod(big & m), ("SMod", [], [X, K])),
        (lambda: claripy.LShR(x, big & m), ("LShR", [], [X, K])),
        (lambda: claripy.RotateLeft(x, big & m), ("RotateLeft", [], [X, K])),
        (lambda: claripy.RotateRight(x, big & m), ("RotateRight", [], [X, K])),
    ]
    for build, ref in tests:
        if ref is not None:
            out.append((w, x, cb, build, ref))
    return out


def check_plumbing(rep, drv, rng, stats, n):
    import astio
    import claripy
    fail = None
    for _ in range(n):
        for (w, x, cb, build, ref) in plumbing_cases(rng):
            try:
                e = build()
            except claripy.errors.ClaripyZeroDivisionError:
                stats["plumbing_zero_division"] += 1
                continue
            except Exception as ex:  # noqa
                if fail is None:
                    fail = {"kind": "plumbing-exception", "reference": str(ref), "width": w, "exception": repr(ex)}
                continue
            names = astio.Names()
            try:
                se = astio.ser(e, names)
            except astio.Unser:
                continue
            xid = names.id(x.args[0])
            cid = names.id(cb.args[0])
            stats["plumbing"] += 1
            rep.count(("plumbing", str(ref), w), nontrivial=True)
            for xv in ([0, 1, (1 << w) - 1, 1 << (w - 1)] + [rng.getrandbits(w) for _ in range(4)]) if w > 4 else range(1 << w):
                for cv in (0, 1):
                    def val(t):
                        if t[0] == "x":
                            return ["bv", w, xv]
                        if t[0] == "k":
                            return ["bv", w, t[1]]
                        if t[0] == "c":
                            return ["bool", cv]
                        if t[0] == "t":
                            return ["bool", 1]
                        if t[0] == "f":
                            return ["bool", 0]
                    ev = drv.ask(["evalop", ref[0], ref[1], [val(t) for t in ref[2]]])
                    got = drv.ask(["eval", se, [[xid, xv]], [[cid, cv]]])
                    if ev[0] == "none":
                        continue
                    if [ev[0]] + [int(v) for v in ev[1:]] != [got[0]] + [int(v) for v in got[1:] if got[0] != "none"]:
                        if fail is None:
                            fail = {"kind": "plumbing-semantic", "reference": str(ref), "width": w, "expression": str(e),
                                    "x": xv, "c": cv, "smtlib": ev, "claripy": got}
    return fail


def replay_semantic(r):
    """Re-run a recorded failing program against /repo alone."""
    okb, _ = build_driver(*BV_DRIVER)
    drv = Driver("bvdriver")
    import astio
    steps = [tuple(s) for s in r["program"]]
    stats = collections.Counter()
    mm, sem = run_program(drv, steps, astio.Names(), random.Random(r.get("seed", 0)), stats)
    drv.close()
    if sem:
        print("replay: property FAILS:", json.dumps(sem, default=str)[:600])
        return 1
    print("replay: property holds on this program" + ("; model/implementation still differ" if mm else ""))
    return 0


def main(tier, seed, replay=None):
    sys.path.insert(0, REPO)
    if replay:
        r = json.load(open(replay))
        if "program" in r:
            return replay_semantic(r)
        print("replay file records:", json.dumps(r, default=str)[:800])
        return 1
    rep = Report(PROP, tier, seed)
    rng = random.Random(seed)
    import astio

    errs = regen_all()
    gen_err = errs.get("BvConcrete")
    ok_make, log = coq_make(["Proofs/TreeSound.vo", "Proofs/SimpSound.vo", "Proofs/BvConcreteProof.vo"])
    pr = check_props("C01") if ok_make else {"ok": False, "obligations": [
        {"name": "C01_build_sound", "closed": False, "axioms": ["<does not compile>"], "ok": False}], "log": log[-3000:]}
    rep.obligations(pr, "make Proofs/TreeSound.vo && coqc -R coq CV coq/Props/C01.v (Print Assumptions)")
    forb = scan_forbidden()
    proof_ok = pr["ok"] and not forb and gen_err is None

    okd, dlog = build_driver(*BV_DRIVER)
    # if the regenerated model no longer compiles, the search goes on with the driver built from the last good tree
    drv = Driver("bvdriver") if (okd or driver_binary_exists("bvdriver")) else None
    stats = collections.Counter()
    if not okd and drv is not None:
        stats["search_with_previously_built_driver"] = 1
    tv_mismatch = spec_fail = None
    corr_mismatch = sem_fail = None
    failing_program = None

    if drv is not None:
        bvhist, tv_mismatch, spec_fail = check_bvconcrete(rep, drv, rng, tier)
        rep.cov["bvconcrete_calls"] = dict(bvhist)

    # driver for the semantic test must exist even if the generated part is broken: fall back is impossible
    # (the Spec evaluator is extracted together with the model), so a broken build goes straight to the report.
    nprog = 350 if tier == "quick" else 6000
    ntmpl = 12 if tier == "quick" else 150
    if drv is not None:
        gen = astio.TreeGen(rng)
        programs = []
        for name in TEMPLATE_RULES:
            for _ in range(ntmpl):
                programs.append(("template:" + name, template_program(rng, name)))
        for _ in range(nprog):
            programs.append(("random", gen.program(rng.randrange(3, 14))))
        t_end = time.time() + (240 if tier == "quick" else 3000)
        for kind, steps in programs:
            if time.time() > t_end:
                stats["time_budget_reached"] += 1
                break
            names = astio.Names()
            try:
                mm, sem = run_program(drv, steps, names, rng, stats)
            except RuntimeError as ex:
                corr_mismatch = corr_mismatch or {"driver_failure": str(ex), "program": steps}
                drv = Driver("bvdriver")
                continue
            stats["programs:" + kind.split(":")[0]] += 1
            nontriv = sum(1 for s in steps if s[0] == "op") >= 2
            rep.count(("prog", repr(steps)), nontrivial=nontriv)
            if kind.startswith("template"):
                stats[kind] += 1
            if rep.cov["samples"] is not None and len(rep.cov["samples"]) < 6 and kind != "random":
                rep.sample({"kind": kind, "program": [list(s) for s in steps if s[0] == "op"][:6]})
            if mm and corr_mismatch is None:
                corr_mismatch = dict(mm, program=[list(s) for s in steps], kind=kind)
            if sem and sem_fail is None:
                sem_fail = dict(sem, program=[list(s) for s in steps], kind=kind)
        pf = check_plumbing(rep, drv, rng, stats, 3 if tier == "quick" else 40)
        if pf and sem_fail is None:
            sem_fail = pf
    rep.cov["rule"] = ("(1) every function generated from bv.py run against the real one: exhaustive widths 1-%d, boundary/random "
                       "at widths up to 256; (2) operation programs (one template family per rewrite rule + random well-typed "
                       "programs of 3-13 operations over widths 1..128): each construction step compared structurally with the "
                       "extracted model, and every intermediate expression evaluated against the written tree with the extracted "
                       "SMT-LIB evaluator on exhaustive (<=12 variable bits) or 16 boundary/random assignments; (3) reversed "
                       "operators with Python ints, slices, If coercions.  distinct = distinct case; non-trivial = at least two "
                       "operations / a successful concrete call" % (3 if tier == "quick" else 4))
    rep.cov["step_histogram"] = {k: v for k, v in sorted(stats.items())}
    modelled = sum(v for k, v in stats.items() if k.startswith("modelled:"))
    unmod = sum(v for k, v in stats.items() if k.startswith("unmodelled:"))
    rep.cov["steps_compared_with_model"] = modelled
    rep.cov["steps_outside_model"] = unmod
    rep.cov["traces_validated_against_impl"] = modelled if not corr_mismatch else 0

    # ---------------- verdict ----------------
    findings = known_findings(PROP)
    concrete = sem_fail or spec_fail
    if concrete:
        site = concrete.get("op") or concrete.get("function") or concrete.get("reference")
        kf = [f for f in findings if f["site"] == str(site)]
        if kf:
            rep.known(kf[0], json.dumps(concrete, default=str)[:300])
        else:
            rep.violation(dict(concrete, broken={"correspondence_mismatch": corr_mismatch, "translator_mismatch": tv_mismatch}))
    elif (not proof_ok) or corr_mismatch or tv_mismatch or drv is None:
        broken = {"translator_error": gen_err, "forbidden_tokens": forb,
                  "obligations_not_discharged": [o for o in pr["obligations"] if not o["ok"]],
                  "coq_log_tail": pr.get("log", "")[-1500:], "driver_build": None if okd else dlog[-1500:],
                  "correspondence_mismatch": corr_mismatch, "translator_validation_mismatch": tv_mismatch}
        # the search already ran (semantic test on every program, concrete folds against the spec): nothing failed
        rep.violation({"broken": broken, "note": "theorem / translator / correspondence no longer checks; the direct "
                       "property test found no failing input within the search bounds"}, found_input=False)
    if drv:
        drv.close()
    rep.cov["trusted_base"] = KERNEL_TB + [
        "Print Assumptions of every theorem in Props/C01.v: Closed under the global context",
        "translator tools/py2coq.py for bv.py (Python int ops -> Z ops, decorators recognised by name with their bodies "
        "fingerprinted); validated by running every generated function against the real one on every run",
        "hand-written model Model/Build.v of operations.op/_op, Base.__new__ eager folding, simplifications.py (19 of 25 "
        "simplifiers; Extract/Concat/Reverse simplifiers, the three compare-against-constant helpers, the min/max idiom, "
        "rotate_shift_mask and a few sub-rules are marked Unmodelled and covered only by the direct property test), "
        "ast/bool.py:If; annotations, hash-consing identity (modelled as structural equality) and stored metadata are not "
        "in this model",
        "Model/Ast.v name->meaning table (e.g. __floordiv__=bvudiv, SMod=bvsrem, __rshift__=bvashr) and Model/BVExec.v "
        "(proved equal to Spec/BV.v)",
        "extraction: ExtrOcamlBasic only; ocaml/bvdriver.ml + conv.ml + sexp.ml glue (zarith for decimal parsing only)",
        "Reverse (byte reversal) has no C01b theorem yet: its concrete fold is compared with Spec/BV.bvreverse by testing only",
    ]
    rep.assumptions = ["SHIFT_LIMIT: widths up to 2^24-2 bits (wok); wider expressions are outside the theorems",
                       "blake2b hash-consing collisions are ignored (structural equality = identity), see C06"]
    return rep.finish("proof")
