"""C21 / C22: strided intervals.

Three layers (DESIGN.md section 5/C21):
  1. theorems over Model/SI.v (add/sub/neg/normalize/cardinality, every width) -- Props/C21.v, Props/C22.v;
  2. correspondence: the model's operations (which call the helper functions regenerated from the source) against
     the real StridedInterval on every input of the domains below -- exact result comparison;
  3. direct soundness sweep of every transfer function / join / query of the real code over the same domains
     (exhaustive at small widths, sampled at larger): this is the search for a failing input.  Operations that are
     unsound on the pinned tree are known findings, identified by (operation, input): known/Cxx.txt.gz lists the
     inputs that fail on the pinned tree; any other failing input is reported as a violation.
"""
from __future__ import annotations

import collections
import gzip
import json
import logging
import multiprocessing
import os
import random
import sys

from common import KERNEL_TB, REPO, VERIF, Driver, Report, build_driver, check_props, coq_make, known_findings, regen_all, scan_forbidden

SI_DRIVER = ("sidriver", "ExtractSi", ["simodel"], ["Model/SI.vo", "Model/PyPrelude.vo", "Gen/SIHelpers.vo", "Model/Lift.vo", "Proofs/LiftSI.vo", "Proofs/SIZext.vo", "Model/SIUnion.vo", "Model/SICmp.vo", "Model/SIQuery.vo", "Model/SINot.vo", "Model/SIZextM.vo"])
DOMAIN_SEED = 20260922       # the domains are fixed (independent of VERIF_SEED) so that known findings are stable


# ----------------------------------------------------------------------------------------------
# intervals, members (from the definition, independent of the code under test)
# ----------------------------------------------------------------------------------------------

def mk(SI, k):
    w, s, l, u = k
    if s is None:
        return SI.empty(w)
    return SI(bits=w, stride=s, lower_bound=l, upper_bound=u)


def keystr(k):
    return "%d:bot" % k[0] if k[1] is None else "%d:%d,%d,%d" % k


def parse_key(s):
    w, r = s.split(":")
    if r == "bot":
        return (int(w), None, 0, 0)
    a, b, c = r.split(",")
    return (int(w), int(a), int(b), int(c))


def all_keys(w):
    """every (stride, lb, ub) at width w; stride 0 only for singletons; plus the empty interval"""
    n = 1 << w
    out = [(w, None, 0, 0)]
    for lb in range(n):
        for ub in range(n):
            if lb == ub:
                out.append((w, 0, lb, ub))
            else:
                out.extend((w, st, lb, ub) for st in range(1, n))
    return out


def rand_key(rng, w):
    n = 1 << w
    kind = rng.random()
    lb = rng.choice([0, 1, n - 1, n >> 1, (n >> 1) - 1, rng.randrange(n), rng.randrange(min(n, 256))])
    if kind < 0.12:
        return (w, 0, lb, lb)
    st = min(n - 1, rng.choice([1, 1, 2, 3, 4, 5, 8, 16, rng.randrange(1, min(n, 1 << 12))])) if n > 1 else 1
    cnt = rng.choice([1, 2, 3, 5, 8, 13, 30, rng.randrange(1, 64)])
    if kind < 0.25:   # huge
        cnt = rng.randrange(1, max(2, n // st + 1))
    span = st * cnt
    if span >= n:
        span = (n - 1) - (n - 1) % st
    if kind > 0.85:   # upper bound not a member
        span = min(n - 1, span + rng.randrange(st))
    ub = (lb + span) % n
    if ub == lb:
        return (w, 0, lb, lb)
    return (w, st, lb, ub)


class Dom:
    """members of an interval given by key, by the definition"""

    def __init__(self, k):
        self.w, self.s, self.l, self.u = k
        self.n = 1 << self.w
        self.empty = self.s is None
        if not self.empty:
            self.span = (self.u - self.l) % self.n
            self.count = 1 if self.s == 0 else self.span // self.s + 1

    def has(self, v):
        if self.empty or not (0 <= v < self.n):
            return False
        if self.s == 0:
            return v == self.l
        off = (v - self.l) % self.n
        return off <= self.span and off % self.s == 0

    def sample(self, cap=40):
        if self.empty:
            return []
        if self.count <= cap:
            return [(self.l + i * self.s) % self.n for i in range(self.count)]
        rng = random.Random(hash((self.w, self.s, self.l, self.u)) & 0xFFFFFFF)
        idx = set(range(6)) | set(range(self.count - 6, self.count)) | {rng.randrange(self.count) for _ in range(20)}
        return [(self.l + i * self.s) % self.n for i in sorted(idx)]


def dom_of_si(si):
    if si.is_empty:
        return Dom((si.bits, None, 0, 0))
    return Dom((si.bits, si.stride, si.lower_bound, si.upper_bound))


def sgn(v, w):
    return v - (1 << w) if v >= (1 << (w - 1)) else v


def tdiv(a, b):
    q = abs(a) // abs(b)
    return q if (a < 0) == (b < 0) else -q


BIN = {
    "add": lambda x, y, w: (x + y) % (1 << w),
    "sub": lambda x, y, w: (x - y) % (1 << w),
    "mul": lambda x, y, w: (x * y) % (1 << w),
    "udiv": lambda x, y, w: None if y == 0 else x // y,
    "sdiv": lambda x, y, w: None if y == 0 else tdiv(sgn(x, w), sgn(y, w)) % (1 << w),
    "mod": lambda x, y, w: None if y == 0 else x % y,
    "and": lambda x, y, w: x & y,
    "or": lambda x, y, w: x | y,
    "xor": lambda x, y, w: x ^ y,
    "shl": lambda x, y, w: (x << y) % (1 << w) if y < w else 0,
    "lshr": lambda x, y, w: x >> y if y < w else 0,
    "ashr": lambda x, y, w: (sgn(x, w) >> min(y, w)) % (1 << w),
}
BIN_CALL = {
    "add": lambda a, b: a.add(b), "sub": lambda a, b: a.sub(b), "mul": lambda a, b: a.mul(b),
    "udiv": lambda a, b: a.udiv(b), "sdiv": lambda a, b: a.sdiv(b), "mod": lambda a, b: a % b,
    "and": lambda a, b: a.bitwise_and(b), "or": lambda a, b: a.bitwise_or(b), "xor": lambda a, b: a.bitwise_xor(b),
    "shl": lambda a, b: a.lshift(b), "lshr": lambda a, b: a.rshift_logical(b), "ashr": lambda a, b: a.rshift_arithmetic(b),
}
CMP = {
    "ULT": lambda x, y, w: x < y, "ULE": lambda x, y, w: x <= y, "UGT": lambda x, y, w: x > y, "UGE": lambda x, y, w: x >= y,
    "SLT": lambda x, y, w: sgn(x, w) < sgn(y, w), "SLE": lambda x, y, w: sgn(x, w) <= sgn(y, w),
    "SGT": lambda x, y, w: sgn(x, w) > sgn(y, w), "SGE": lambda x, y, w: sgn(x, w) >= sgn(y, w),
    "eq": lambda x, y, w: x == y,
}
UN = {
    "neg": (lambda a: a.neg(), lambda x, w: (-x) % (1 << w)),
    "opneg": (lambda a: -a, lambda x, w: (-x) % (1 << w)),
    "not": (lambda a: a.bitwise_not(), lambda x, w: (~x) % (1 << w)),
}
JOIN = {
    "union": lambda a, b: a.union(b),
    "lub": lambda a, b: type(a).least_upper_bound(a, b),
    "pseudo_join": lambda a, b: type(a).pseudo_join(a, b),
    "widen": lambda a, b: a.widen(b),
}
C21_BIN = list(BIN) + list(CMP) + ["concat"]
C22_BIN = list(JOIN) + ["intersection"]
QUERIES = ["eval", "eval_signed", "min", "min_signed", "max", "max_signed", "cardinality", "solution"]


def unary_sites(w):
    ex = ([(h, l) for h in range(w) for l in range(h + 1)] if w <= 4 else
          sorted({(w - 1, 0), (7, 0), (w - 1, w - 8), (w // 2, w // 4), (0, 0), (w - 1, w - 1), (w - 2, 1)}))
    ex = [(h, l) for h, l in ex if 0 <= l <= h < w]
    return (list(UN) + ["zext1", "zext2", "zext%d" % w, "sext1", "sext2", "sext%d" % w] +
            ["extract%d_%d" % (h, l) for h, l in ex])


def site_of(name):
    """known findings are per operation: extract3_1 -> extract, zext2 -> zext"""
    for p in ("extract", "zext", "sext"):
        if name.startswith(p):
            return p
    return name


def exc_class(ex):
    """a claripy error is a refusal to answer, not an unsound answer; any other exception type is a failure"""
    if type(ex).__name__.startswith("Claripy"):
        return None
    return "exception:" + type(ex).__name__


def check_binary(name, a, b, da, db):
    """-> None | 'unsound' | 'exception:<type>'.  a, b real intervals; da, db their Dom"""
    w = da.w
    try:
        if name in BIN:
            dr = dom_of_si(BIN_CALL[name](a, b))
            f = BIN[name]
            for x in da.sample():
                for y in db.sample():
                    v = f(x, y, w)
                    if v is not None and not dr.has(v):
                        return "unsound"
        elif name in CMP:
            allowed = frozenset(getattr(a, name)(b).value)
            f = CMP[name]
            for x in da.sample():
                for y in db.sample():
                    if f(x, y, w) not in allowed:
                        return "unsound"
        elif name in JOIN:
            dr = dom_of_si(JOIN[name](a, b))
            if not all(dr.has(x) for x in da.sample()) or not all(dr.has(y) for y in db.sample()):
                return "unsound"
        elif name == "intersection":
            dr = dom_of_si(a.intersection(b))
            if any(db.has(x) and not dr.has(x) for x in da.sample()) or any(da.has(y) and not dr.has(y) for y in db.sample()):
                return "unsound"
        elif name == "concat":
            dr = dom_of_si(a.concat(b))
            for x in da.sample(12):
                for y in db.sample(12):
                    if not dr.has((x << db.w) | y):
                        return "unsound"
    except RecursionError:
        return "exception:RecursionError"
    except Exception as ex:  # noqa
        return exc_class(ex)
    return None


def check_unary(name, a, da):
    w = da.w
    try:
        if name in UN:
            dr = dom_of_si(UN[name][0](a))
            if any(not dr.has(UN[name][1](x, w)) for x in da.sample()):
                return "unsound"
        elif name.startswith("zext"):
            k = int(name[4:])
            dr = dom_of_si(a.zero_extend(w + k))
            if dr.w != w + k or any(not dr.has(x) for x in da.sample()):
                return "unsound"
        elif name.startswith("sext"):
            k = int(name[4:])
            dr = dom_of_si(a.sign_extend(w + k))
            if dr.w != w + k or any(not dr.has(sgn(x, w) % (1 << (w + k))) for x in da.sample()):
                return "unsound"
        elif name.startswith("extract"):
            hi, lo = map(int, name[7:].split("_"))
            dr = dom_of_si(a.extract(hi, lo))
            if any(not dr.has((x >> lo) & ((1 << (hi - lo + 1)) - 1)) for x in da.sample()):
                return "unsound"
    except RecursionError:
        return "exception:RecursionError"
    except Exception as ex:  # noqa
        return exc_class(ex)
    return None


def check_queries(a, da):
    """C22: -> {query: failure}.  Only for intervals small enough to enumerate."""
    out = {}
    if da.count > 300 if not da.empty else False:
        return out
    w, n = da.w, da.n
    ms = set(da.sample(400))

    def q(name, f):
        try:
            r = f()
            if r:
                out[name] = r
        except RecursionError:
            out[name] = "exception:RecursionError"
        except Exception as ex:  # noqa
            if exc_class(ex):
                out[name] = exc_class(ex)

    def ev(signed):
        lim = len(ms) + 2
        got = a.eval(lim, signed=signed)
        if len(got) > lim or any((v % n) not in ms for v in got):
            return "lists a non-member"
        if len(got) != len(set(got)):
            return "lists a value twice"
        if signed and any(not (-(n >> 1) <= v < (n >> 1)) for v in got) or (not signed and any(not (0 <= v < n) for v in got)):
            return "value outside the requested signedness"
        if len(got) < len(ms):
            return "omits members although n allows them"
        k = max(0, len(ms) - 1)
        if len(a.eval(k, signed=signed)) > k:
            return "more than n values"
        return None

    def ext(fn, pick, signed):
        r = fn(signed=signed)
        if da.empty:
            return None if r is None else "value for an empty interval"
        key = (lambda v: sgn(v, w)) if signed else (lambda v: v)
        want = pick(key(v) for v in ms)
        return None if r == want else "wrong"

    q("eval", lambda: ev(False))
    q("eval_signed", lambda: ev(True))
    if not da.empty or True:
        q("min", lambda: ext(a.min, min, False))
        q("min_signed", lambda: ext(a.min, min, True))
        q("max", lambda: ext(a.max, max, False))
        q("max_signed", lambda: ext(a.max, max, True))
    q("cardinality", lambda: None if a.cardinality == len(ms) else "wrong")
    if w <= 6:
        q("solution", lambda: None if all(a.solution(v) == (v in ms) for v in range(n)) else "wrong")
    else:
        probe = list(ms)[:20] + [(v + 1) % n for v in list(ms)[:20]] + [0, n - 1]
        q("solution", lambda: None if all(a.solution(v) == (v in ms) for v in probe) else "wrong")
    return out


# ----------------------------------------------------------------------------------------------
# domains (fixed)
# ----------------------------------------------------------------------------------------------

def pair_domain(tier):
    """-> list of (keyA, keyB)"""
    rng = random.Random(DOMAIN_SEED)
    out = []
    for w in (1, 2):
        ks = all_keys(w)
        out += [(a, b) for a in ks for b in ks]
    k3, k4 = all_keys(3), all_keys(4)
    if tier == "thorough":
        out += [(a, b) for a in k3 for b in k3]
    else:
        out += [(rng.choice(k3), rng.choice(k3)) for _ in range(4000)]
    out += [(rng.choice(k4), rng.choice(k4)) for _ in range(2500 if tier == "quick" else 60000)]
    for _ in range(1500 if tier == "quick" else 24000):
        w = rng.choice([5, 8, 8, 16, 32, 64])
        out.append((rand_key(rng, w), rand_key(rng, w)))
    return out


def unary_domain(tier):
    rng = random.Random(DOMAIN_SEED + 1)
    out = []
    for w in (1, 2, 3, 4):
        out += all_keys(w)
    for _ in range(1500 if tier == "quick" else 20000):
        out.append(rand_key(rng, rng.choice([5, 8, 8, 16, 32, 64])))
    return out


def extra_domain(seed, tier):
    """seed-dependent inputs (beyond the fixed domains); failures there are known only if the input is listed"""
    rng = random.Random(seed * 7919 + 13)
    ps = []
    for _ in range(600 if tier == "quick" else 8000):
        w = rng.choice([3, 4, 4, 5, 8, 16, 32, 64])
        ps.append((rand_key(rng, w), rand_key(rng, w)))
    us = [rand_key(rng, rng.choice([4, 5, 8, 16, 32, 64])) for _ in range(300 if tier == "quick" else 4000)]
    return ps, us


# ----------------------------------------------------------------------------------------------
# workers
# ----------------------------------------------------------------------------------------------

_SI = None


def _init():
    global _SI
    sys.path.insert(0, REPO)
    logging.disable(logging.CRITICAL)
    sys.setrecursionlimit(300)   # runaway mutual recursion in the code under test is reported as RecursionError
    from claripy.backends.backend_vsa.strided_interval import StridedInterval
    _SI = StridedInterval


def work_pairs(args):
    prop, pairs, skip = args
    if _SI is None:
        _init()
    names = [n for n in (C21_BIN if prop == "C21" else C22_BIN) if site_of(n) not in skip]
    fails, n = [], 0
    hist = collections.Counter()
    for ka, kb in pairs:
        a, b = mk(_SI, ka), mk(_SI, kb)
        da, db = Dom(ka), Dom(kb)
        for nm in names:
            r = check_binary(nm, a, b, da, db)
            n += 1
            if r:
                fails.append((nm, keystr(ka) + "|" + keystr(kb), r))
        hist["w%d" % ka[0]] += 1
    return fails, n, hist


def work_unary(args):
    prop, keys, skip = args
    if _SI is None:
        _init()
    fails, n = [], 0
    hist = collections.Counter()
    for k in keys:
        a, da = mk(_SI, k), Dom(k)
        if prop == "C21":
            if da.empty:
                continue
            for nm in unary_sites(k[0]):
                if site_of(nm) in skip:
                    continue
                r = check_unary(nm, a, da)
                n += 1
                if r:
                    fails.append((nm, keystr(k), r))
        else:
            for nm, r in check_queries(a, da).items():
                if nm not in skip:
                    fails.append((nm, keystr(k), r))
            n += len(QUERIES)
        hist["w%d" % k[0]] += 1
    return fails, n, hist


def triple_domain(tier, seed):
    """least_upper_bound of three or four intervals: every triple of the width-2 intervals, fixed samples at widths 3 and 4
    (plus seed-dependent ones)"""
    import itertools
    uns = [k for k in unary_domain("quick") if k[1] is not None]
    byw = collections.defaultdict(list)
    for k in uns:
        byw[k[0]].append(k)
    out = list(itertools.product(byw[2], repeat=3))
    for r, cnt in ((random.Random(DOMAIN_SEED + 9), 4000 if tier == "quick" else 40000), (random.Random(seed + 11), 1500)):
        for w in (3, 4):
            for _ in range(cnt):
                out.append(tuple(r.choice(byw[w]) for _ in range(r.choice([3, 3, 4]))))
    return out


def work_triples(args):
    ks_list = args
    if _SI is None:
        _init()
    fails, n = [], 0
    for ks in ks_list:
        objs = [mk(_SI, k) for k in ks]
        n += 1
        try:
            r = _SI.least_upper_bound(*objs)
        except Exception as ex:  # noqa
            if type(ex).__name__.startswith("Claripy"):
                continue
            fails.append(("lub3", "|".join(keystr(k) for k in ks), "exception:" + type(ex).__name__))
            continue
        got = set(r.eval(1 << 12)) if not r.is_empty else set()
        if any(not set(Dom(k).sample(64)) <= got for k in ks):
            fails.append(("lub3", "|".join(keystr(k) for k in ks), "unsound"))
    return fails, n, collections.Counter({"lub3": n})


def chunks(l, k):
    return [l[i:i + k] for i in range(0, len(l), k)]


def sweep(prop, tier, seed, procs=None, with_extra=True, known_sites=()):
    """-> (failures [(name, inputkey, kind)], evaluations, histogram).
    The fixed domains are swept for every operation; the seed-dependent inputs only for the operations without a
    known finding (a failure there on an unrecorded input could not be told from the recorded defect)."""
    pairs, uns = pair_domain(tier), unary_domain(tier)
    procs = procs or min(16, os.cpu_count() or 4)
    jobs_p = [(prop, c, ()) for c in chunks(pairs, 400)]
    jobs_u = [(prop, c, ()) for c in chunks(uns, 400)]
    if with_extra:
        ep, eu = extra_domain(seed, tier)
        jobs_p += [(prop, c, tuple(known_sites)) for c in chunks(ep, 400)]
        jobs_u += [(prop, c, tuple(known_sites)) for c in chunks(eu, 400)]
    fails, n, hist = [], 0, collections.Counter()
    ctx = multiprocessing.get_context("fork")
    with ctx.Pool(procs, initializer=_init) as pool:
        for f, k, h in pool.imap_unordered(work_pairs, jobs_p):
            fails += f
            n += k
            hist.update(h)
        for f, k, h in pool.imap_unordered(work_unary, jobs_u):
            fails += f
            n += k
            hist.update({"unary_" + a: b for a, b in h.items()})
        if prop == "C22":
            for f, k, h in pool.imap_unordered(work_triples, chunks(triple_domain(tier, seed if with_extra else 0), 2000)):
                fails += f
                n += k
                hist.update(h)
    return fails, n, hist


# ----------------------------------------------------------------------------------------------
# known findings (committed; never written by a check)
# ----------------------------------------------------------------------------------------------

def known_path(prop):
    return os.path.join(VERIF, "known", prop + ".txt.gz")


def load_known(prop):
    """-> {(operation name, inputkey)}"""
    p = known_path(prop)
    if not os.path.exists(p):
        return set()
    out = set()
    with gzip.open(p, "rt") as f:
        for line in f:
            parts = line.rstrip("\n").split("\t")
            if len(parts) >= 3:
                out.add((parts[2], parts[1]))
    return out


# ----------------------------------------------------------------------------------------------
# correspondence: model vs real
# ----------------------------------------------------------------------------------------------

def si_sx(k):
    w, s, l, u = k
    return [w, 0, 0, 0, 1] if s is None else [w, s, l, u, 0]


def real_res(f):
    try:
        r = f()
    except ZeroDivisionError:
        return ["crash", "ZeroDivisionError"]
    except Exception as ex:  # noqa
        nm = type(ex).__name__
        return ["err", {"ClaripyVSAError": "VSAErr", "ClaripyOperationError": "OpErr"}.get(nm, nm)]
    if isinstance(r, bool):
        return ["ok", "1" if r else "0"]
    if isinstance(r, int):
        return ["ok", str(r)]
    if isinstance(r, list):
        return ["ok", [[str(x), str(y)] for x, y in r]]
    if r.is_empty:
        return ["ok", [str(r.bits), "bot"]]
    return ["ok", [str(r.bits), str(r.stride), str(r.lower_bound), str(r.upper_bound), "0"]]


def real_tri(f):
    """a BoolResult of the real code as the model's TT / TF / TM"""
    try:
        r = f()
    except ZeroDivisionError:
        return ["crash", "ZeroDivisionError"]
    except Exception as ex:  # noqa
        nm = type(ex).__name__
        return ["err", {"ClaripyVSAError": "VSAErr", "ClaripyOperationError": "OpErr"}.get(nm, nm)]
    v = frozenset(r.value)
    return ["ok", "TT" if v == {True} else "TF" if v == {False} else "TM"]


def norm_model(r):
    if r and r[0] == "ok" and isinstance(r[1], list) and len(r[1]) == 5 and r[1][4] == "1":
        return ["ok", [r[1][0], "bot"]]
    return r


HELPER_ARGS = {
    "_modular_add": 3, "_modular_sub": 3, "_modular_mul": 3, "highbit": 1, "max_int": 1, "min_int": 1,
    "signed_max_int": 1, "signed_min_int": 1, "_to_negative": 2, "upper": 3, "lower": 3, "_wrapped_cardinality": 3,
    "_is_msb_zero": 2, "_is_msb_one": 2, "_get_msb": 2, "_unsigned_to_signed": 2, "_lex_lte": 3, "_lex_lt": 3,
}


def correspondence(prop, tier, seed, drv, SI, stats):
    """model op == real op on the domain.  -> first mismatch or None"""
    rng = random.Random(seed + 5)
    pairs = pair_domain("quick")
    if tier == "thorough":
        pairs = pairs + [p for p in pair_domain("thorough")[::7]]
    ep, eu = extra_domain(seed, tier)
    pairs = pairs + ep
    uns = unary_domain("quick") + eu
    if prop == "C21":
        for ka, kb in pairs:
            if ka[1] is None or kb[1] is None:
                continue
            a, b = mk(SI, ka), mk(SI, kb)
            for op, f in (("add", lambda: a.add(b)), ("sub", lambda: a.sub(b)), ("overflow", lambda: SI._wrapped_overflow_add(a, b))):
                m = norm_model(drv.ask([op, si_sx(ka), si_sx(kb)]))
                r = real_res(f)
                stats["corr_" + op] += 1
                if m != r:
                    return {"kind": "model/implementation mismatch", "op": op, "a": keystr(ka), "b": keystr(kb), "model": m, "real": r}
            # the comparisons and the bounds they are decided on (the real operands are normalised objects:
            # the model gets what they hold)
            if a.bits == b.bits:
                fa = [a.bits, a.stride, a.lower_bound, a.upper_bound, 0]
                fb = [b.bits, b.stride, b.lower_bound, b.upper_bound, 0]
                for op in ("ULT", "ULE", "UGT", "UGE", "SLT", "SLE", "SGT", "SGE"):
                    m = drv.ask(["ucmp", op, fa, fb])
                    r = real_tri(lambda: getattr(a, op)(b))
                    stats["corr_ucmp"] += 1
                    if m != r:
                        return {"kind": "model/implementation mismatch", "op": op, "a": keystr(ka), "b": keystr(kb), "model": m, "real": r}
        for k in uns:
            if k[1] is None:
                continue
            a = mk(SI, k)
            m = drv.ask(["ubounds", [a.bits, a.stride, a.lower_bound, a.upper_bound, 0]])
            r = real_res(lambda: a._unsigned_bounds())
            stats["corr_ubounds"] += 1
            if m != r:
                return {"kind": "model/implementation mismatch", "op": "_unsigned_bounds", "a": keystr(k), "model": m, "real": r}
            m = drv.ask(["sbounds", [a.bits, a.stride, a.lower_bound, a.upper_bound, 0]])
            r = real_res(lambda: a._signed_bounds())
            stats["corr_sbounds"] += 1
            if m != r:
                return {"kind": "model/implementation mismatch", "op": "_signed_bounds", "a": keystr(k), "model": m, "real": r}
            # the real object is normalised on construction: the model gets what the object holds
            m = norm_model(drv.ask(["zext", [a.bits, a.stride, a.lower_bound, a.upper_bound, 0], k[0] + 1]))
            r = real_res(lambda: a.zero_extend(k[0] + 1))
            stats["corr_zext"] += 1
            if m != r:
                return {"kind": "model/implementation mismatch", "op": "zext", "a": keystr(k), "model": m, "real": r}
            m = norm_model(drv.ask(["not", [a.bits, a.stride, a.lower_bound, a.upper_bound, 0]]))
            r = real_res(lambda: a.bitwise_not())
            stats["corr_not"] += 1
            if m != r:
                return {"kind": "model/implementation mismatch", "op": "bitwise_not", "a": keystr(k), "model": m, "real": r}
            for op, f in (("neg", lambda: a.neg()), ("mk", lambda: a.copy())):
                m = norm_model(drv.ask([op, si_sx(k)]))
                r = real_res(f)
                stats["corr_" + op] += 1
                if m != r:
                    return {"kind": "model/implementation mismatch", "op": op, "a": keystr(k), "model": m, "real": r}
        # raw constructor inputs (negative / oversized bounds are masked by normalize)
        for _ in range(400 if tier == "quick" else 6000):
            w = rng.choice([1, 2, 3, 4, 8, 16, 64])
            n = 1 << w
            s = rng.choice([0, 1, 1, 2, 3, rng.randrange(0, n + 2)])
            l, u = rng.randrange(-2 * n, 3 * n), rng.randrange(-2 * n, 3 * n)
            if rng.random() < 0.3:
                u = l + rng.choice([0, -1, n, n - 1, -n])
            m = norm_model(drv.ask(["mk", [w, s, l, u, 0]]))
            r = real_res(lambda: SI(bits=w, stride=s, lower_bound=l, upper_bound=u))
            stats["corr_mk_raw"] += 1
            if m != r:
                return {"kind": "model/implementation mismatch", "op": "mk", "raw": [w, s, l, u], "model": m, "real": r}
        # the generated helpers against the real static methods
        for _ in range(600 if tier == "quick" else 10000):
            name = rng.choice(sorted(HELPER_ARGS))
            w = rng.choice([1, 2, 3, 4, 8, 16, 64])
            n = 1 << w
            if HELPER_ARGS[name] == 1:
                args = [rng.choice([1, 2, 3, 8, 64, w])]
            elif name in ("upper", "lower"):
                args = [w, rng.randrange(-n, 2 * n), rng.choice([0, 1, 2, 3, rng.randrange(0, n + 1)])]
            elif HELPER_ARGS[name] == 2:
                args = [rng.randrange(-n, 2 * n), w]
            else:
                args = [rng.randrange(-n, 2 * n), rng.randrange(-n, 2 * n), w]
            m = drv.ask(["helper", name] + args)
            r = real_res(lambda: getattr(SI, name)(*args))
            stats["corr_helper"] += 1
            if m != r:
                return {"kind": "translated helper differs from the source", "helper": name, "args": args, "model": m, "real": r}
    else:
        # the union model against pseudo_join / union / _union (the real operands are normalised objects: the model gets
        # what they hold)
        for ka, kb in pairs:
            if ka[1] is None or kb[1] is None:
                continue
            a, b = mk(SI, ka), mk(SI, kb)
            m = norm_model(drv.ask(["union", [a.bits, a.stride, a.lower_bound, a.upper_bound, 0], [b.bits, b.stride, b.lower_bound, b.upper_bound, 0]]))
            r = real_res(lambda: a.union(b))
            stats["corr_union"] += 1
            if m != r:
                return {"kind": "model/implementation mismatch", "op": "union", "a": keystr(ka), "b": keystr(kb), "model": m, "real": r}
        # pseudo_join without smart_join on the same pairs, and least_upper_bound of three and four intervals
        for ka, kb in pairs[::3]:
            if ka[1] is None or kb[1] is None:
                continue
            a, b = mk(SI, ka), mk(SI, kb)
            m = norm_model(drv.ask(["join", "0", [a.bits, a.stride, a.lower_bound, a.upper_bound, 0], [b.bits, b.stride, b.lower_bound, b.upper_bound, 0]]))
            r = real_res(lambda: SI.pseudo_join(a, b, False))
            stats["corr_join_nosmart"] += 1
            if m != r:
                return {"kind": "model/implementation mismatch", "op": "pseudo_join(smart_join=False)", "a": keystr(ka), "b": keystr(kb), "model": m, "real": r}
        for ks in triple_domain("quick", seed)[::(16 if tier == "quick" else 3)]:
            objs = [mk(SI, k) for k in ks]
            m = norm_model(drv.ask(["lub", [[o.bits, o.stride, o.lower_bound, o.upper_bound, 0] for o in objs]]))
            r = real_res(lambda: SI.least_upper_bound(*objs))
            stats["corr_lub"] += 1
            if m != r:
                return {"kind": "model/implementation mismatch", "op": "least_upper_bound", "operands": [keystr(k) for k in ks], "model": m, "real": r}
        # the queries that read the bounds pairs: max / min / eval in both signednesses (model: Model/SIQuery.v)
        for k in uns:
            if k[1] is None:
                continue
            a = mk(SI, k)
            fa = [a.bits, a.stride, a.lower_bound, a.upper_bound, 0]
            for sg in (False, True):
                for q, f in (("qmax", lambda: a.max(signed=sg)), ("qmin", lambda: a.min(signed=sg))):
                    m = drv.ask([q, "1" if sg else "0", fa])
                    r = real_res(f)
                    stats["corr_" + q] += 1
                    if m != r:
                        return {"kind": "model/implementation mismatch", "op": q[1:], "signed": sg, "a": keystr(k), "model": m, "real": r}
                for n in (1, 3, 40):
                    m = drv.ask(["qeval", "1" if sg else "0", fa, str(n)])
                    try:
                        r = ["ok", [str(v) for v in a.eval(n, signed=sg)]]
                    except ZeroDivisionError:
                        r = ["crash", "ZeroDivisionError"]
                    except Exception as ex:  # noqa
                        r = ["err", type(ex).__name__]
                    stats["corr_qeval"] += 1
                    if m != r:
                        return {"kind": "model/implementation mismatch", "op": "eval", "n": n, "signed": sg, "a": keystr(k), "model": m, "real": r}
        for k in uns:
            a = mk(SI, k)
            m = drv.ask(["cardinality", si_sx(k)])
            r = real_res(lambda: a.cardinality)
            stats["corr_cardinality"] += 1
            if m != r:
                return {"kind": "model/implementation mismatch", "op": "cardinality", "a": keystr(k), "model": m, "real": r}
            if k[1] is not None and Dom(k).count <= 64:
                mm = [int(x) for x in drv.ask(["members", si_sx(k)])]
                stats["corr_members"] += 1
                if mm != Dom(k).sample(64):
                    return {"kind": "model members differ from the definition", "a": keystr(k), "model": mm}
    return None


# ----------------------------------------------------------------------------------------------

def run(prop, tier, seed, replay, make_target, rule_text, trusted, assumptions):
    sys.path.insert(0, REPO)
    logging.disable(logging.CRITICAL)
    rep = Report(prop, tier, seed)
    known = load_known(prop)
    kf = {f["site"]: f for f in known_findings(prop)}
    if replay:
        _init()
        r = json.load(open(replay))
        bad = 0
        for nm, key in r.get("failing_inputs", []):
            ks = [parse_key(x) for x in key.split("|")]
            if nm == "lub3":
                res = (work_triples([tuple(ks)])[0] or [(None, None, None)])[0][2]
            elif len(ks) == 2:
                res = check_binary(nm, mk(_SI, ks[0]), mk(_SI, ks[1]), Dom(ks[0]), Dom(ks[1]))
            elif nm in QUERIES:
                res = check_queries(mk(_SI, ks[0]), Dom(ks[0])).get(nm)
            else:
                res = check_unary(nm, mk(_SI, ks[0]), Dom(ks[0]))
            print("replay %s %s -> %s" % (nm, key, res))
            if res and (nm, key) not in known:
                bad += 1
        if bad or "broken" in r:
            if "broken" in r:
                print("replay file records:", json.dumps(r["broken"], default=str)[:1500])
            print("VIOLATION property=%s replay=%s" % (prop, replay))
            return 1
        return 0
    regen_all()
    ok_make, log = coq_make([make_target, "Proofs/SIZext.vo", "Proofs/LiftSI.vo", "Proofs/SIUnionSound.vo", "Proofs/SICmpSound.vo", "Proofs/SIQuerySound.vo", "Proofs/SINotSound.vo", "Proofs/SILubSound.vo"])
    pr = check_props(prop) if ok_make else {"ok": False, "obligations": [
        {"name": prop + "_*", "closed": False, "axioms": ["<does not compile>"], "ok": False}], "log": log[-3000:]}
    rep.obligations(pr, "make %s && coqc -R coq CV coq/Props/%s.v (Print Assumptions)" % (make_target, prop))
    forb = scan_forbidden()
    proof_ok = pr["ok"] and not forb
    okd, dlog = build_driver(*SI_DRIVER)
    stats = collections.Counter()
    mismatch = None
    if okd:
        _init()
        drv = Driver("sidriver")
        try:
            mismatch = correspondence(prop, tier, seed, drv, _SI, stats)
        finally:
            drv.close()
    fails, n, hist = sweep(prop, tier, seed, known_sites=sorted(kf))
    rep.count(n=n)
    stats.update(hist)
    by_site = collections.defaultdict(list)
    new_by_site = collections.defaultdict(list)
    for nm, key, kind in fails:
        s = site_of(nm)
        if s in kf and (nm, key) in known:
            by_site[s].append((nm, key, kind))
        else:
            new_by_site[s].append((nm, key, kind))
    for s in sorted(by_site):
        rep.known(kf[s], "%d recorded failing inputs hit, e.g. %s(%s): %s -- %s" % (
            len(by_site[s]), by_site[s][0][0], by_site[s][0][1], by_site[s][0][2], kf[s]["text"][:160]))
        rep.known_hits[s] = len(by_site[s])
    for s in sorted(new_by_site):
        l = sorted(new_by_site[s], key=lambda t: (len(t[1]), t[1]))
        rep.violation({"site": s, "what": "the result of %s does not cover its concrete results (or the call raised)" % s,
                       "count": len(l), "failing_inputs": [[nm, key] for nm, key, _ in l[:50]],
                       "kinds": dict(collections.Counter(k for _, _, k in l)),
                       "input_format": "bits:stride,lower,upper | second operand",
                       "known_finding_for_site": s in kf})
    rep.cov["distinct_nontrivial"] = 0
    rep._distinct = range(max(0, n - len(fails)))   # every evaluation is a distinct (operation, input)
    rep.cov["rule"] = rule_text
    rep.cov["histogram"] = dict(stats)
    rep.cov["traces_validated_against_impl"] = sum(v for k, v in stats.items() if k.startswith("corr_")) if not mismatch else 0
    rep.cov["failing_evaluations_known"] = sum(len(v) for v in by_site.values())
    if not new_by_site and (not proof_ok or mismatch or not okd):
        rep.violation({"broken": {"obligations_not_discharged": [o for o in pr["obligations"] if not o["ok"]], "forbidden": forb,
                                  "model_mismatch": mismatch, "driver": None if okd else dlog[-800:],
                                  "coq_log_tail": pr.get("log", "")[-1200:]},
                       "note": "theorem or correspondence no longer checks; the soundness sweep of the real code found no new failing input"},
                      found_input=False)
    elif new_by_site and mismatch:
        print("note: model/implementation mismatch as well: %s" % json.dumps(mismatch, default=str)[:400])
    rep.cov["trusted_base"] = KERNEL_TB + trusted
    rep.assumptions = assumptions
    return rep.finish("proof")
