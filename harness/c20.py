"""C20: solvers used from several threads answer as if used alone.

Proof: Props/C20.v over Model/Tls.v -- with per-thread conversion caches every object a thread obtains belongs to its own
Z3 context, for every interleaving; a shared cache fails.
Tie: real threads convert shared expressions through backends.z3; the Z3 context of every returned object is compared with
the converting thread's own context, in the recorded interleaving, against the extracted model.
Search: pre-generated solver scripts (add / satisfiable / exhaustive eval / min / max / solution / branch / simplify over shared
expression objects) are first run alone, then by 2..12 threads at once under several switch intervals; every answer must
equal the answer of the run alone.
"""
from __future__ import annotations

import collections
import json
import random
import sys
import threading

from common import KERNEL_TB, REPO, Driver, Report, build_driver, check_props, coq_make, regen_all, scan_forbidden
from c01 import BV_DRIVER

PROP = "C20"


def run_script(claripy, cls, script):
    """-> list of answers (exceptions by type name)"""
    solvers = [cls()]
    out = []
    for op in script:
        kind = op[0]
        s = solvers[op[1] % len(solvers)]
        try:
            if kind == "add":
                s.add(op[2])
                out.append(None)
            elif kind == "sat":
                out.append(s.satisfiable())
            elif kind == "eval":
                out.append(sorted(s.eval(op[2], 70)))
            elif kind == "min":
                out.append(s.min(op[2], signed=op[3]))
            elif kind == "max":
                out.append(s.max(op[2], signed=op[3]))
            elif kind == "solution":
                out.append(s.solution(op[2], op[3]))
            elif kind == "branch":
                if len(solvers) < 4:
                    solvers.append(s.branch())
                out.append(None)
            elif kind == "simplify":
                s.simplify()
                out.append(None)
            elif kind == "extra":
                out.append(sorted(s.eval(op[2], 70, extra_constraints=[op[3]])))
        except Exception as ex:  # noqa
            out.append("exc:" + type(ex).__name__)
    return out


def main(tier, seed, replay=None):
    sys.path.insert(0, REPO)
    import claripy
    rep = Report(PROP, tier, seed)
    rng = random.Random(seed)
    if replay:
        r = json.load(open(replay))
        print("replay file records:", json.dumps(r, default=str)[:1500])
        return 1
    regen_all()
    ok_make, log = coq_make(["Proofs/TlsSound.vo"])
    pr = check_props(PROP) if ok_make else {"ok": False, "obligations": [
        {"name": "C20_*", "closed": False, "axioms": ["<does not compile>"], "ok": False}], "log": log[-3000:]}
    rep.obligations(pr, "make Proofs/TlsSound.vo && coqc -R coq CV coq/Props/C20.v (Print Assumptions)")
    forb = scan_forbidden()
    proof_ok = pr["ok"] and not forb
    okd, dlog = build_driver(*BV_DRIVER)
    stats = collections.Counter()
    fail = mismatch = None
    drv = Driver("bvdriver") if okd else None
    old_interval = sys.getswitchinterval()
    if drv is not None:
        x = claripy.BVS("tx", 6, explicit_name=True)
        y = claripy.BVS("ty", 6, explicit_name=True)
        b = claripy.BoolS("tb", explicit_name=True)
        kk = lambda: claripy.BVV(rng.getrandbits(6), 6)
        cons_pool = [x == 5, x != 7, claripy.ULT(x, 20), claripy.UGT(y, 50), x + y == 9, claripy.SLE(x, 3), x * 3 == y, (x & y) != 0, b, claripy.Not(b),
                     claripy.If(b, x, y) == 11, claripy.Or(x == 1, x == 2, x == 33), claripy.ULE(x, y), x ^ y == 40, claripy.And(claripy.UGE(x, 4), claripy.ULE(x, 9)),
                     claripy.LShR(x, 2) == 3, x % 5 == 1, claripy.Concat(x, y) == claripy.BVV(777, 12), claripy.SignExt(2, x) == claripy.ZeroExt(2, y)]
        expr_pool = [x, y, x + y, x ^ y, x * 2, claripy.If(b, x, y), x & 15, ~y, x - y]
        try:
            # ---------- (0) conversion caches ----------
            for rnd in range(6 if tier == "quick" else 120):
                if fail or mismatch:
                    break
                T = rng.choice([2, 3, 4, 8])
                sys.setswitchinterval(rng.choice([1e-6, 1e-5, 1e-3, old_interval]))
                exprs = [rng.choice(cons_pool + expr_pool) for _ in range(12)] + [c for c in cons_pool[:4]]
                logl = threading.Lock()
                reqlog, results = [], {}
                ctxs = {}
                barrier = threading.Barrier(T)

                def worker(t):
                    bz = claripy.backends.z3
                    order = list(range(len(exprs)))
                    random.Random(seed * 1000 + rnd * 17 + t).shuffle(order)
                    barrier.wait()
                    mine = []
                    for i in order:
                        o = bz.convert(exprs[i])
                        with logl:
                            reqlog.append((t, i))
                        mine.append((i, o.ctx.ref().value if hasattr(o.ctx.ref(), "value") else int(o.ctx.ref())))
                    ctxs[t] = bz._context.ref().value if hasattr(bz._context.ref(), "value") else int(bz._context.ref())
                    results[t] = mine

                ths = [threading.Thread(target=worker, args=(t + 1,)) for t in range(T)]
                for th in ths:
                    th.start()
                for th in ths:
                    th.join()
                stats["conversion_rounds"] += 1
                rep.count(("conv", seed, rnd))
                if len(set(ctxs.values())) != T:
                    fail = {"what": "two threads share one Z3 context", "contexts": {str(k): v for k, v in ctxs.items()}}
                    break
                m = drv.ask(["tls_run", [[t, i] for t, i in reqlog]])
                want = {(int(t), int(i)) for (t, i) in [(a[0], a[1]) for a in m]}
                for t, mine in results.items():
                    for i, cid in mine:
                        stats["objects_checked"] += 1
                        if cid != ctxs[t]:
                            other = [u for u, cv in ctxs.items() if cv == cid]
                            fail = {"what": "thread %d obtained, for a shared expression, a Z3 object of %s context" % (t, ("thread %d's" % other[0]) if other else "a foreign"),
                                    "expression": str(exprs[i]), "threads": T}
                            break
                        if (t, i) not in want and mismatch is None:
                            mismatch = {"kind": "model/implementation mismatch", "what": "owner of a converted object", "thread": t, "expr": i}
                    if fail:
                        break
            # ---------- (1) concurrent histories against their run alone ----------
            classes = [claripy.Solver, claripy.SolverCacheless, claripy.SolverComposite]
            rounds = 5 if tier == "quick" else 150
            for rnd in range(rounds):
                if fail:
                    break
                T = rng.choice([2, 4, 8, 12] if tier == "quick" else [2, 3, 4, 8, 12, 16])
                scripts = []
                for t in range(T):
                    sc = []
                    for _ in range(rng.randrange(6, 14)):
                        r = rng.random()
                        si = rng.randrange(4)
                        if r < 0.35:
                            sc.append(("add", si, rng.choice(cons_pool)))
                        elif r < 0.45:
                            sc.append(("sat", si))
                        elif r < 0.65:
                            sc.append(("eval", si, rng.choice(expr_pool)))
                        elif r < 0.75:
                            sc.append((rng.choice(["min", "max"]), si, rng.choice(expr_pool), rng.random() < 0.4))
                        elif r < 0.82:
                            sc.append(("solution", si, rng.choice(expr_pool), rng.getrandbits(6)))
                        elif r < 0.9:
                            sc.append(("branch", si))
                        elif r < 0.95:
                            sc.append(("simplify", si))
                        else:
                            sc.append(("extra", si, rng.choice(expr_pool), rng.choice(cons_pool)))
                    scripts.append((rng.choice(classes), sc))
                alone = [run_script(claripy, cls, sc) for cls, sc in scripts]
                sys.setswitchinterval(rng.choice([1e-6, 1e-5, 1e-4, old_interval]))
                got = [None] * T
                barrier = threading.Barrier(T)

                def worker2(t):
                    barrier.wait()
                    got[t] = run_script(claripy, scripts[t][0], scripts[t][1])

                ths = [threading.Thread(target=worker2, args=(t,)) for t in range(T)]
                for th in ths:
                    th.start()
                for th in ths:
                    th.join(timeout=600)
                stats["concurrent_rounds"] += 1
                stats["threads_run"] += T
                rep.count(("conc", seed, rnd))
                for t in range(T):
                    if got[t] != alone[t]:
                        k = next((i for i in range(len(alone[t])) if got[t] is None or i >= len(got[t]) or got[t][i] != alone[t][i]), 0)
                        fail = {"what": "a thread's answer differs from the same history run alone", "threads": T, "thread": t, "solver": scripts[t][0].__name__,
                                "step": k, "operation": [str(a) for a in scripts[t][1][k]], "alone": str(alone[t][k]),
                                "concurrent": str(None if got[t] is None else got[t][k] if k < len(got[t]) else None),
                                "script": [[str(a) for a in op] for op in scripts[t][1]]}
                        break
        finally:
            sys.setswitchinterval(old_interval)
    rep.cov["rule"] = ("(0) 2-8 threads convert 16 shared expressions in different orders (barrier start, switch interval 1e-6..default): the Z3 context of "
                       "each returned object = the converting thread's context, distinct per thread, against the extracted model on the recorded "
                       "interleaving; (1) 2-16 threads each run a pre-generated script of 6-13 operations on Solver / SolverCacheless / "
                       "SolverComposite over shared constraint and expression objects (x,y:BV6 b:Bool); every answer must equal the answer of the same "
                       "script run alone")
    rep.cov["histogram"] = dict(stats)
    rep.cov["traces_validated_against_impl"] = stats["objects_checked"] if not mismatch else 0
    if fail:
        rep.violation(fail)
    elif not proof_ok or mismatch or drv is None:
        rep.violation({"broken": {"obligations_not_discharged": [o for o in pr["obligations"] if not o["ok"]], "forbidden": forb,
                                  "model_mismatch": mismatch, "driver": None if okd else dlog[-800:],
                                  "coq_log_tail": pr.get("log", "")[-1200:]},
                       "note": "theorem or correspondence no longer checks; no differing concurrent answer was found"}, found_input=False)
    if drv:
        drv.close()
    rep.cov["trusted_base"] = KERNEL_TB + [
        "Print Assumptions of Props/C20.v theorems: Closed under the global context",
        "Model/Tls.v models only the per-thread conversion cache discipline; Z3's thread safety per context, CPython's GIL, the hash-consing "
        "table and the frontends are NOT modelled; schedules are whatever the interpreter produces under the chosen switch intervals (sampling)",
    ]
    rep.assumptions = ["Z3 contexts are independent of each other", "the GC guard holds (C19)"]
    return rep.finish("proof")
