"""C13: the replacement and hybrid solvers are exact; the approximate modes over-approximate.

  1. theorems: Props/C13.v (the replacement frontend's invariant over every history of add(), and exactness of queries);
  2. correspondence: the extracted model of the replacement frontend replays random add() sequences; the constraints the real
     SolverReplacement hands to its actual solver, its replacement map and the rewritten queries must be the model's;
  3. search: histories of add/queries/branch/simplify/downsize on SolverReplacement (default, and auto_replace off),
     SolverHybrid (default, and approximate_first with exact=True passed to every query) -- every answer compared with the
     enumeration of all 4096 assignments; and the approximate modes (exact=False, approximate_first) checked for containment:
     no feasible value missing from a non-truncated eval, min/max not cutting off, no satisfiable set reported unsatisfiable.
"""
from __future__ import annotations

import collections
import json
import logging
import random
import sys

import gzip
import os

from common import VERIF
from common import KERNEL_TB, REPO, Driver, Report, build_driver, check_props, coq_make, known_findings, regen_all, scan_forbidden
from c01 import BV_DRIVER

PROP = "C13"
DOMAIN_SEED = 20260913       # the approximate-mode histories are fixed (independent of VERIF_SEED): known findings are listed by history number


class ExactWrap:
    """passes exact=True to every query of the wrapped solver"""

    QUERIES = ("eval", "batch_eval", "min", "max", "solution", "is_true", "is_false", "satisfiable", "eval_to_ast")

    def __init__(self, s):
        object.__setattr__(self, "_s", s)

    def __getattr__(self, name):
        a = getattr(self._s, name)
        if name in ExactWrap.QUERIES:
            def call(*args, **kw):
                kw.setdefault("exact", True)
                return a(*args, **kw)
            return call
        if name == "branch":
            return lambda: ExactWrap(a())
        return a

    def __setattr__(self, name, value):
        setattr(self._s, name, value)


def subterm_table(astio, names, terms):
    """hash -> S-expression for every sub-expression of the given ASTs"""
    import claripy
    tab = {}
    memo = {}

    def go(a):
        if not isinstance(a, claripy.ast.Base) or a.hash() in tab:
            return
        try:
            tab[a.hash()] = astio.ser(a, names, memo)
        except astio.Unser:
            return
        for x in a.args:
            go(x)
    for t in terms:
        go(t)
    return tab


def correspondence(claripy, astio, solverhist, drv, rng, stats, n):
    c = claripy
    for i in range(n):
        u = solverhist.Universe(c, drv, tag="c13c%d_" % (i % 5))
        x, y, z, b = u.x, u.y, u.z, u.b
        k = lambda w=4: c.BVV(rng.getrandbits(w), w)  # noqa
        targeted = [lambda: x == k(), lambda: k() == y, lambda: c.Not(b), lambda: c.Not(c.ULT(x, k())), lambda: x + y == k(),
                    lambda: x * y == k(), lambda: c.If(b, x, y) == k(), lambda: z == k(3), lambda: (x ^ y) == k(), lambda: b,
                    lambda: c.Not(x == k()), lambda: c.ULE(x, y), lambda: x - y == k(), lambda: c.ZeroExt(1, z) == x]
        forms = targeted + solverhist.constraint_pool(u, rng)[:24]
        adds = [rng.choice(forms)() for _ in range(rng.randint(1, 5))]
        adds = [a for a in adds if a.op != "BoolV"]
        adds = list({a.hash(): a for a in adds}.values())     # ConstraintDeduplicatorMixin drops repeated constraints before _add
        queries = [rng.choice(solverhist.expr_pool(u, rng)) for _ in range(3)] + [rng.choice(forms)() for _ in range(2)]
        queries = [q for q in queries if q.op not in ("BoolV", "BVV")]
        s = c.SolverReplacement()
        try:
            for a in adds:
                s.add(a)
                for q in queries:           # queries between the adds fill the replacement cache with derived entries
                    s._replacement(q)
            real_q = [s._replacement(q) for q in queries]
        except Exception as ex:  # noqa
            return {"what": "real raises %s" % type(ex).__name__, "adds": [str(a) for a in adds]}
        try:
            sa = [astio.ser(a, u.names) for a in adds]
            sq = [astio.ser(q, u.names) for q in queries]
            sreal_q = [astio.ser(q, u.names) for q in real_q]
            real_cs = {json.dumps(astio.ser(a, u.names)) for a in s._actual_frontend.constraints}
            tab = subterm_table(astio, u.names, adds)
            real_map = {}
            for h, new in s._replacements.items():
                if h not in tab:
                    raise astio.Unser("key")
                real_map[json.dumps(tab[h])] = astio.ser(new, u.names)
        except astio.Unser:
            stats["corr_unserialisable"] += 1
            continue
        out = drv.ask(["repl_run", sa, sq])
        if out[0] != "ok":
            if out[0] == "err" and out[1] == "Unmodelled":
                stats["corr_model_does_not_cover"] += 1
                continue
            return {"what": "model fails", "adds": [str(a) for a in adds], "model": out}
        stats["corr_histories"] += 1
        m_cs = {json.dumps(astio.norm(e)) for e in out[1]}
        true_s = json.dumps(["BoolV", 1])
        m_cs.discard(true_s)
        real_cs.discard(true_s)
        if m_cs != real_cs:
            return {"what": "the actual solver's constraints differ", "adds": [str(a) for a in adds], "model": sorted(m_cs),
                    "real": sorted(real_cs)}
        m_map = {json.dumps(astio.norm(kv[0])): astio.norm(kv[1]) for kv in out[2]}
        if m_map != real_map:
            return {"what": "the replacement maps differ", "adds": [str(a) for a in adds], "model": m_map, "real": real_map}
        for q, mq, rq in zip(queries, out[3], sreal_q):
            if mq[0] != "ok":
                if mq[0] == "err" and mq[1] == "Unmodelled":
                    continue
                return {"what": "model query fails", "query": str(q), "model": mq}
            stats["corr_queries"] += 1
            if astio.norm(mq[1]) != rq:
                return {"what": "rewritten query differs", "adds": [str(a) for a in adds], "query": str(q), "model": astio.norm(mq[1]),
                        "real": rq}
    return None


def pin_scenarios(claripy, solverhist, drv, rng, stats, n, fails):
    """variables pinned one after the other by equalities, with queries of expressions over several of them in between
    (derived entries of the replacement cache must not survive a later replacement)"""
    c = claripy
    for i in range(n):
        u = solverhist.Universe(c, drv, tag="c13p%d_" % (i % 5))
        vs = [u.x, u.y, u.z]
        rng.shuffle(vs)
        exprs = [u.x + u.y, u.x ^ u.y, u.x - u.y, c.ZeroExt(1, u.z) + u.x, u.y & c.ZeroExt(1, u.z), u.x * u.y, c.Concat(u.z, u.x[0:0]) + u.y]
        e = rng.choice(exprs)
        s = c.SolverReplacement() if rng.random() < 0.7 else c.SolverHybrid()
        label = type(s).__name__
        cs, log = [], []
        try:
            for v in vs[:rng.randint(2, 3)]:
                k = c.BVV(rng.getrandbits(v.length), v.length)
                con = (v == k) if rng.random() < 0.7 else (k == v)
                if rng.random() < 0.3:
                    s = s.branch()
                    log.append("branch()")
                log.append("add(%s)" % con)
                s.add(con)
                cs.append(con)
                stats["pin_queries"] += 1
                feas = sorted(set(u.feasible(cs, e)))
                log.append("eval(%s, 20)" % e)
                got = sorted(s.eval(e, 20))
                if got != feas:
                    fails.append({"site": "exact", "what": "eval differs from the enumeration", "returned": got[:20], "feasible": feas[:20],
                                  "history": list(log), "solver": label})
                    break
                log.append("min/max(%s)" % e)
                if (s.min(e), s.max(e)) != (feas[0], feas[-1]):
                    fails.append({"site": "exact", "what": "min/max differ from the enumeration", "returned": [s.min(e), s.max(e)],
                                  "feasible": feas[:20], "history": list(log), "solver": label})
                    break
        except Exception as ex:  # noqa
            fails.append({"site": "exact", "what": "raises %s: %s" % (type(ex).__name__, str(ex)[:100]), "history": list(log), "solver": label})
        if any(f["site"] == "exact" for f in fails):
            return


KNOWN_FILE = os.path.join(VERIF, "known", "C13.txt.gz")


def load_known():
    s = set()
    if os.path.exists(KNOWN_FILE):
        with gzip.open(KNOWN_FILE, "rt") as f:
            for line in f:
                t = line.rstrip("\n").split("\t")
                if len(t) >= 2:
                    s.add((t[0], t[1]))
    return s


def approximate(claripy, solverhist, drv, stats, n, fails):
    """containment in the approximate modes, on a fixed sequence of histories"""
    c = claripy
    rng = random.Random(DOMAIN_SEED)
    # targeted scenarios (found by earlier random runs), keys t0, t1, ...
    u = solverhist.Universe(c, drv, tag="c13t_")
    scen = [([c.ULT(u.x + 1, 4), c.UGE(u.x, 2)], u.x + 1),
            ([c.ULT(u.x + 1, 4)], u.x + 1), ([c.SLT(u.x, 3), c.UGE(u.x, 2)], u.x), ([c.UGT(u.x - 1, 12)], u.x)]
    for j, (cs, e) in enumerate(scen):
        s = c.SolverHybrid()
        try:
            for con in cs:
                s.add(con)
            feas = set(u.feasible(cs, e))
            stats["approx_queries"] += 1
            for v in sorted(feas):
                if not s.solution(e, v, exact=False):
                    fails.append({"site": "approx.solution", "key": "t%d" % j, "what": "a feasible value is rejected", "value": v,
                                  "history": ["add(%s)" % x for x in cs] + ["solution(%s, %d, exact=False)" % (e, v)], "solver": "SolverHybrid()"})
                    break
            r = set(s.eval(e, 40, exact=False))
            if not feas <= r:
                fails.append({"site": "approx.eval", "key": "t%d" % j, "what": "a feasible value is missing from a non-truncated eval",
                              "missing": sorted(feas - r), "history": ["add(%s)" % x for x in cs] + ["eval(%s, 40, exact=False)" % e],
                              "solver": "SolverHybrid()"})
        except Exception as ex:  # noqa
            fails.append({"site": "approx.exception", "key": "t%d" % j, "what": "raises %s" % type(ex).__name__,
                          "history": ["add(%s)" % x for x in cs], "solver": "SolverHybrid()"})
    for i in range(n):
        nfail = len(fails)
        _approximate_one(c, solverhist, drv, rng, stats, i, fails)
        for f in fails[nfail:]:
            f.setdefault("key", "h%d" % i)


def _approximate_one(c, solverhist, drv, rng, stats, i, fails):
    if True:
        u = solverhist.Universe(c, drv, tag="c13a%d_" % (i % 5))
        x, y, z = u.x, u.y, u.z
        k = lambda w=4: c.BVV(rng.getrandbits(w), w)  # noqa
        forms = [lambda: c.ULT(x, k()), lambda: c.UGE(x, k()), lambda: c.ULE(y, k()), lambda: x == k(), lambda: x != k(),
                 lambda: c.SLT(x, k()), lambda: c.SGE(y, k()), lambda: c.ULT(z, k(3)), lambda: c.And(c.UGE(x, k()), c.ULE(x, k())),
                 lambda: c.Or(x == k(), x == k()), lambda: c.ULT(x + 1, k()), lambda: c.ULE(c.ZeroExt(1, z), x), lambda: k() == y,
                 lambda: c.UGT(k(), x), lambda: c.Not(c.ULT(x, k())), lambda: x + y == k(), lambda: c.ULT(x, y)]
        exprs = [x, y, z, x + y, x + 1, x - y, c.ZeroExt(1, z), x & 3, c.If(c.ULT(x, 4), x, y)]
        approx_first = rng.random() < 0.4
        s = c.SolverHybrid(approximate_first=approx_first)
        cs = []
        label = "SolverHybrid(approximate_first=%s)" % approx_first
        log = []
        try:
            for _ in range(rng.randint(0, 3)):
                con = rng.choice(forms)()
                log.append("add(%s)" % con)
                s.add(con)
                cs.append(con)
        except Exception as ex:  # noqa
            fails.append({"site": "approx.add", "what": "add raises %s: %s" % (type(ex).__name__, str(ex)[:100]), "history": log, "solver": label})
            return
        models = u.models(cs)
        for _ in range(4):
            e = rng.choice(exprs)
            feas = set(u.feasible(cs, e))
            kw = {} if approx_first and rng.random() < 0.5 else {"exact": False}
            stats["approx_queries"] += 1
            try:
                nq = rng.choice([3, 5, 20, 40])
                log.append("eval(%s, %d, %s)" % (e, nq, kw))
                try:
                    r = set(s.eval(e, nq, **kw))
                    if models and len(r) < nq and not feas <= r:
                        fails.append({"site": "approx.eval", "what": "a feasible value is missing from a non-truncated eval",
                                      "missing": sorted(feas - r)[:6], "returned": sorted(r)[:20], "history": list(log), "solver": label})
                        break
                except c.errors.UnsatError:
                    if models:
                        fails.append({"site": "approx.unsat", "what": "eval raised UnsatError on a satisfiable set", "history": list(log),
                                      "solver": label})
                        break
                log.append("satisfiable(%s)" % kw)
                if models and not s.satisfiable(**kw):
                    fails.append({"site": "approx.unsat", "what": "satisfiable() is False on a satisfiable set", "history": list(log), "solver": label})
                    break
                if models and "exact" in kw:
                    log.append("min/max(%s, exact=False)" % e)
                    lo, hi = s.min(e, exact=False), s.max(e, exact=False)
                    if lo > min(feas) or hi < max(feas):
                        fails.append({"site": "approx.minmax", "what": "min/max cut off feasible values", "min": lo, "max": hi,
                                      "feasible": sorted(feas)[:20], "history": list(log), "solver": label})
                        break
                    v = rng.choice(sorted(feas))
                    log.append("solution(%s, %d, exact=False)" % (e, v))
                    if not s.solution(e, v, exact=False):
                        fails.append({"site": "approx.solution", "what": "a feasible value is rejected", "value": v, "history": list(log),
                                      "solver": label})
                        break
            except c.errors.UnsatError:
                if models:
                    fails.append({"site": "approx.unsat", "what": "UnsatError on a satisfiable set", "history": list(log), "solver": label})
                break
            except c.errors.ClaripyError as ex:
                stats["approx_refused_" + type(ex).__name__] += 1
            except Exception as ex:  # noqa
                fails.append({"site": "approx.exception", "what": "raises %s: %s" % (type(ex).__name__, str(ex)[:100]), "history": list(log),
                              "solver": label})
                break


def main(tier, seed, replay=None):
    sys.path.insert(0, REPO)
    logging.disable(logging.CRITICAL)
    import astio
    import claripy
    import solverhist
    rep = Report(PROP, tier, seed)
    rng = random.Random(seed)
    if replay:
        r = json.load(open(replay))
        print("replay file records:", json.dumps(r, default=str)[:2000])
        return 1
    regen_all()
    ok_make, log = coq_make(["Proofs/ReplaceSound.vo"])
    pr = check_props(PROP) if ok_make else {"ok": False, "obligations": [
        {"name": "C13_*", "closed": False, "axioms": ["<does not compile>"], "ok": False}], "log": log[-3000:]}
    rep.obligations(pr, "make Proofs/ReplaceSound.vo && coqc -R coq CV coq/Props/C13.v (Print Assumptions)")
    forb = scan_forbidden()
    proof_ok = pr["ok"] and not forb
    okd, dlog = build_driver(*BV_DRIVER)
    stats = collections.Counter()
    mismatch = None
    fails = []
    if okd:
        drv = Driver("bvdriver")
        try:
            try:
                mismatch = correspondence(claripy, astio, solverhist, drv, random.Random(seed + 3), stats, 1500 if tier == "thorough" else 200)
            except Exception as ex:  # noqa
                mismatch = {"exception": repr(ex)}
            facs = [("SolverReplacement()", lambda: claripy.SolverReplacement()),
                    ("SolverReplacement(auto_replace=False)", lambda: claripy.SolverReplacement(auto_replace=False)),
                    ("SolverHybrid()", lambda: claripy.SolverHybrid()),
                    ("SolverHybrid(approximate_first=True) queried with exact=True",
                     lambda: ExactWrap(claripy.SolverHybrid(approximate_first=True)))]
            ops = ["add", "add", "add", "satisfiable", "eval", "eval", "batch_eval", "min", "max", "min", "max",
                   "solution", "is_true", "simplify", "downsize", "branch", "eval_bool"]
            f = solverhist.run_histories(claripy, drv, rng, facs, 2500 if tier == "thorough" else 300, 12, report=rep, tag="c13h", ops=ops)
            if f:
                fails.append(dict(f, site="exact"))
            pin_scenarios(claripy, solverhist, drv, rng, stats, 400 if tier == "thorough" else 60, fails)
            approximate(claripy, solverhist, drv, stats, 1500 if tier == "thorough" else 150, fails)
        finally:
            drv.close()
    kf = {f["site"]: f for f in known_findings(PROP)}
    new = collections.defaultdict(list)
    known = load_known()
    for f in fails:
        if f["site"] in kf and (f["site"], f.get("key")) in known:
            rep.known(kf[f["site"]], json.dumps({k: v for k, v in f.items() if k != "site"}, default=str)[:260])
        else:
            new[f["site"]].append(f)
    for s in sorted(new):
        rep.violation({"site": s, "count": len(new[s]), "failures": new[s][:10]})
    rep.cov["rule"] = ("histories of 12 steps (add, satisfiable, eval, batch_eval, min, max signed/unsigned, solution, is_true/is_false, "
                       "simplify, downsize, branch, with extra constraints) over x,y:BV4 z:BV3 b:Bool on SolverReplacement (default; "
                       "auto_replace off), SolverHybrid (default; approximate_first with exact=True): every answer against enumeration of "
                       "4096 assignments; SolverHybrid with exact=False / approximate_first: containment of feasible values in eval, "
                       "min/max, solution, satisfiable")
    rep.cov["histogram"] = dict(stats)
    rep.cov["traces_validated_against_impl"] = stats.get("corr_histories", 0) if not mismatch else 0
    if not new and (not proof_ok or mismatch or not okd):
        rep.violation({"broken": {"obligations_not_discharged": [o for o in pr["obligations"] if not o["ok"]], "forbidden": forb,
                                  "model_mismatch": mismatch, "driver": None if okd else dlog[-800:],
                                  "coq_log_tail": pr.get("log", "")[-1200:]},
                       "note": "theorem or correspondence no longer checks; the histories found no wrong answer"},
                      found_input=False)
    elif new and mismatch:
        print("note: model/implementation mismatch as well: %s" % json.dumps(mismatch, default=str)[:600])
    rep.cov["trusted_base"] = KERNEL_TB + [
        "Print Assumptions of Props/C13.v theorems: Closed under the global context",
        "extraction (ExtrOcamlBasic only) of Replace.radd/rquery, Rewrite.subst, Ast.eval; ocaml/bvdriver.ml",
        "Model/Replace.v is hand-written; the replacement cache, unsafe_replacement, complex_auto_replace/replace_constraints, the "
        "wrapped frontends and the hybrid dispatch are not modelled (search only); Z3 is trusted to answer truthfully",
    ]
    rep.assumptions = ["the reference for every answer is enumeration with the extracted SMT-LIB evaluator"]
    return rep.finish("proof")
