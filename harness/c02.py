"""C02: floating-point expressions follow IEEE-754 in every rounding mode, folded or not.

  1. theorems: Props/C02.v -- the model of each folded double-precision operation on Coq's primitive binary64 floats is
     Flocq's IEEE-754 operation (all operands, incl. the zero-divisor special-casing and the negative-argument square root);
     computing single precision in double precision and rounding is the single-precision operation (Flocq's double-rounding
     theorems instantiated at binary32/binary64);
  2. correspondence: the model is evaluated inside Coq (one coqc run over a generated cases file, vm_compute on primitive
     floats) on pairs from a pool of special values, boundaries and ties; every result must be bit-for-bit what claripy's eager
     folding yields;
  3. search: for every operation, rounding mode, sort and operand pair, what claripy yields -- the folded constant, or, where
     it does not fold, the solver's answer; and the same operation with the left operand symbolic and pinned by its bit
     pattern -- against an independently built Z3 term (NaN compared as NaN; float-to-integer conversions of NaN/inf/out of
     range values are exempt).  Conversion chains (double->float->double, fpToIEEEBV/fpToFP cancellations) are included.
"""
from __future__ import annotations

import collections
import fractions
import json
import logging
import math
import os
import random
import re
import struct
import sys

from common import COQ, FLOAT_AXIOMS, KERNEL_TB, REPO, VERIF, Report, check_props, coq_make, known_findings, regen_all, scan_forbidden, sh

PROP = "C02"
DOMAIN_SEED = 20260902


def f32(v):
    return struct.unpack("f", struct.pack("f", v))[0]


def bits64(v):
    return struct.unpack("<Q", struct.pack("<d", v))[0]


def bits32(v):
    return struct.unpack("<I", struct.pack("<f", v))[0]


POOL_D = [0.0, -0.0, 1.0, -1.0, 1.5, 2.5, -2.5, 0.5, 3.5, 0.1, 1 / 3, 1e308, -1e308, 5e-324, -5e-324, 2.2250738585072014e-308,
          1.1e-308, float("inf"), float("-inf"), float("nan"), 1 + 2 ** -52, 2.0 ** 53 + 2, 9007199254740993.0, 4.5, -3.5, 1e-40,
          16777217.0, 3.4e38, 1e39, 1.2, -1.2, 2.0 ** 31, 2.0 ** 63, -2.0 ** 63, 255.5, 256.0, 1.7976931348623157e308, 1e-320,
          0.30000000000000004, 6.0, 7.0, 1e16, 3.0]
POOL_F = sorted({f32(v) for v in POOL_D if not math.isnan(v)} | {f32(2.0 ** 24), f32(2.0 ** 24 + 2), f32(1e-45), f32(3.4028234e38)},
                key=lambda v: (math.copysign(1, v), v)) + [float("nan")]


def same(a, b):
    if isinstance(a, float) and isinstance(b, float):
        if math.isnan(a) or math.isnan(b):
            return math.isnan(a) and math.isnan(b)
        return a == b and math.copysign(1, a) == math.copysign(1, b)
    return a == b


def coq_lit(v):
    if math.isnan(v):
        return "nan"
    if math.isinf(v):
        return "infinity" if v > 0 else "neg_infinity"
    if v == 0:
        return "(-0)%float" if math.copysign(1, v) < 0 else "0%float"
    return "(%s)%%float" % v.hex()


def spec_tuple(v):
    """(kind, sign, mantissa, exponent) as Prim2SF gives it"""
    if math.isnan(v):
        return (2, False, 0, 0)
    s = math.copysign(1, v) < 0
    if math.isinf(v):
        return (1, s, 0, 0)
    if v == 0:
        return (0, s, 0, 0)
    b = bits64(v)
    e = (b >> 52) & 0x7FF
    frac = b & ((1 << 52) - 1)
    if e == 0:
        return (3, s, frac, -1074)
    return (3, s, frac | (1 << 52), e - 1075)


def correspondence(claripy, rng, stats, n_pairs):
    """-> None | mismatch"""
    from claripy.fp import FSORT_DOUBLE, RM
    rne = RM.RM_NearestTiesEven
    vals = POOL_D + [rng.choice(POOL_D) * rng.choice([1.0, 3.0, 0.1, 1e-300, 1e300, 7.0]) for _ in range(20)] + \
        [struct.unpack("<d", struct.pack("<Q", rng.getrandbits(64)))[0] for _ in range(25)]
    pairs = [(a, b) for a in vals for b in vals]
    rng.shuffle(pairs)
    pairs = pairs[:n_pairs]
    ops2 = [("fold_add", lambda A, B: claripy.fpAdd(rne, A, B)), ("fold_sub", lambda A, B: claripy.fpSub(rne, A, B)),
            ("fold_mul", lambda A, B: claripy.fpMul(rne, A, B)), ("fold_div", lambda A, B: claripy.fpDiv(rne, A, B))]
    cmps = [("fold_lt", lambda A, B: claripy.fpLT(A, B)), ("fold_le", lambda A, B: claripy.fpLEQ(A, B)),
            ("fold_eq", lambda A, B: claripy.fpEQ(A, B))]
    lines = ["From Coq Require Import ZArith Floats SpecFloat List.", "Require Import CV.Model.FPFold.", "Import ListNotations.",
             "Open Scope float_scope.",
             "Definition show (x : float) : Z * bool * Z * Z := match Prim2SF x with S754_zero s => (0, s, 0, 0)%Z "
             "| S754_infinity s => (1, s, 0, 0)%Z | S754_nan => (2, false, 0, 0)%Z | S754_finite s m e => (3, s, Zpos m, e)%Z end.",
             "Definition showb (b : bool) : Z * bool * Z * Z := (4, b, 0, 0)%Z."]
    expected = []
    items = []
    for a, b in pairs:
        A, B = claripy.FPV(a, FSORT_DOUBLE), claripy.FPV(b, FSORT_DOUBLE)
        for nm, f in ops2:
            r = f(A, B)
            if r.op != "FPV":
                return {"what": "not folded", "op": nm, "a": a.hex(), "b": b.hex()}
            expected.append((nm, a, b, spec_tuple(r.args[0])))
            items.append("show (%s %s %s)" % (nm, coq_lit(a), coq_lit(b)))
        for nm, f in cmps:
            r = f(A, B)
            if r.op != "BoolV":
                return {"what": "not folded", "op": nm, "a": a.hex(), "b": b.hex()}
            expected.append((nm, a, b, (4, bool(r.args[0]), 0, 0)))
            items.append("showb (%s %s %s)" % (nm, coq_lit(a), coq_lit(b)))
    for a in vals:
        A = claripy.FPV(a, FSORT_DOUBLE)
        for nm, f in (("fold_sqrt", lambda A: claripy.fpSqrt(rne, A)), ("fold_neg", lambda A: claripy.fpNeg(A)), ("fold_abs", lambda A: claripy.fpAbs(A))):
            r = f(A)
            if r.op != "FPV":
                return {"what": "not folded", "op": nm, "a": a.hex()}
            expected.append((nm, a, None, spec_tuple(r.args[0])))
            items.append("show (%s %s)" % (nm, coq_lit(a)))
        r = claripy.fpIsNaN(A)
        expected.append(("fold_is_nan", a, None, (4, bool(r.args[0]), 0, 0)))
        items.append("showb (fold_is_nan %s)" % coq_lit(a))
    d = os.path.join(VERIF, "build", "c02")
    os.makedirs(d, exist_ok=True)
    chunk = 600
    got = []
    for k in range(0, len(items), chunk):
        fn = os.path.join(d, "cases%d.v" % (k // chunk))
        with open(fn, "w") as f:
            f.write("\n".join(lines) + "\n")
            f.write("Eval vm_compute in [\n  " + ";\n  ".join(items[k:k + chunk]) + "\n].\n")
        rc, out = sh("coqc -R %s CV %s" % (COQ, fn), cwd=d, timeout=600)
        if rc != 0:
            return {"what": "the cases file does not compile", "log": out[-800:]}
        for m in re.finditer(r"\(\s*(\d)%?Z?,\s*(true|false),\s*\(?(-?\d+)%?Z?\)?,\s*\(?(-?\d+)%?Z?\)?\)", out.replace("\n", " ")):
            got.append((int(m.group(1)), m.group(2) == "true", int(m.group(3)), int(m.group(4))))
    if len(got) != len(expected):
        return {"what": "could not read the model's results", "expected": len(expected), "read": len(got)}
    for (nm, a, b, want), g in zip(expected, got):
        stats["corr_" + nm] += 1
        if want[0] == 2 and g[0] == 2:
            continue
        if tuple(want) != tuple(g):
            return {"what": "model and folding differ", "op": nm, "a": a.hex(), "b": None if b is None else b.hex(),
                    "claripy": list(want), "model": list(g), "format": "(kind 0 zero 1 inf 2 nan 3 finite 4 bool, sign, mantissa, exponent)"}
    return None


class Z3Ref:
    def __init__(self, claripy):
        import z3
        from claripy.fp import FSORT_DOUBLE, FSORT_FLOAT, RM
        self.z3, self.c = z3, claripy
        self.D, self.F, self.RM = FSORT_DOUBLE, FSORT_FLOAT, RM
        self.rms = {RM.RM_NearestTiesEven: z3.RNE(), RM.RM_NearestTiesAwayFromZero: z3.RNA(), RM.RM_TowardsZero: z3.RTZ(),
                    RM.RM_TowardsPositiveInf: z3.RTP(), RM.RM_TowardsNegativeInf: z3.RTN()}
        self.zs = {FSORT_DOUBLE: z3.Float64(), FSORT_FLOAT: z3.Float32()}

    def val(self, v, sort):
        z3 = self.z3
        zs = self.zs[sort]
        if math.isnan(v):
            return z3.fpNaN(zs)
        if math.isinf(v):
            return z3.fpPlusInfinity(zs) if v > 0 else z3.fpMinusInfinity(zs)
        if v == 0:
            return z3.fpMinusZero(zs) if math.copysign(1, v) < 0 else z3.fpPlusZero(zs)
        b = bits64(v) if sort == self.D else bits32(v)
        return z3.fpBVToFP(z3.BitVecVal(b, sort.length), zs)

    def fp(self, z, sort):
        z3 = self.z3
        z = z3.simplify(z)
        if not z3.is_fp_value(z):
            raise ValueError("z3 did not reduce %s" % z)
        if z.isNaN():
            return float("nan")
        if z.isInf():
            return float("-inf") if z.isNegative() else float("inf")
        if z.isZero():
            return -0.0 if z.isNegative() else 0.0
        bv = z3.simplify(z3.fpToIEEEBV(z)).as_long()
        if sort == self.D:
            return struct.unpack("<d", struct.pack("<Q", bv))[0]
        return struct.unpack("<f", struct.pack("<I", bv))[0]


def exact_int(rm, RM, q):
    fl, ce = math.floor(q), math.ceil(q)
    if rm == RM.RM_TowardsZero:
        return int(q)
    if rm == RM.RM_TowardsPositiveInf:
        return ce
    if rm == RM.RM_TowardsNegativeInf:
        return fl
    if rm == RM.RM_NearestTiesEven:
        return round(q)
    half = fractions.Fraction(1, 2)
    return fl if q - fl < half else (ce if q - fl > half else (ce if q > 0 else fl))


class Search:
    def __init__(self, claripy, stats):
        self.c, self.stats = claripy, stats
        self.ref = Z3Ref(claripy)
        self.fails = []

    def value_of(self, ast):
        """what claripy says the expression is: the folded constant, otherwise the solver's (single) answer"""
        c = self.c
        if ast.op in ("FPV", "BVV", "BoolV"):
            self.stats["folded"] += 1
            return ast.args[0]
        self.stats["via_solver"] += 1
        s = c.Solver()
        r = s.eval(ast, 2)
        if len(r) != 1:
            if len(r) == 2 and all(isinstance(v, float) and math.isnan(v) for v in r):
                return r[0]
            raise ValueError("solver gives %d values" % len(r))
        return r[0]

    def pinned(self, sort, v, tag):
        """a symbolic operand whose bit pattern is fixed (not for NaN)"""
        c = self.c
        x = c.FPS("c02%s" % tag, sort)
        b = bits64(v) if sort == self.ref.D else bits32(v)
        return x, x.raw_to_bv() == c.BVV(b, sort.length)

    def check(self, site, desc, build, want, sort_a, a, sym=True):
        """build(A) -> claripy AST given the left operand (constant or symbolic)"""
        c = self.c
        # sampling (fixed by DOMAIN_SEED): operations that are not folded go through the solver, which is slow
        rne = ":RNE" in site or site.count(":") == 1
        if not rne and self.rng.random() > self.p_nonrne:
            return
        sym = sym and self.rng.random() < (self.p_sym if rne else self.p_sym / 3)
        if sym and ("sqrt:DOUBLE" in site or "div:DOUBLE" in site) and self.rng.random() > 0.1:
            sym = False      # bit-blasted double-precision sqrt/div take seconds each
        self.stats["checks"] += 1
        try:
            got = self.value_of(build(c.FPV(a, sort_a)))
            if not same(got, want):
                self.fails.append({"site": site, "key": desc, "what": "constant operands", "claripy": repr(got), "smtlib": repr(want)})
                return
        except Exception as ex:  # noqa
            self.fails.append({"site": site, "key": desc, "what": "constant operands: raises %s: %s" % (type(ex).__name__, str(ex)[:80])})
            return
        if sym and not math.isnan(a):
            self.stats["checks_symbolic"] += 1
            try:
                x, pin = self.pinned(sort_a, a, "s%d" % (self.stats["checks_symbolic"] % 7))
                s = c.Solver(timeout=20000)
                s.add(pin)
                r = s.eval(build(x), 3)
                ok = len(r) >= 1 and all(same(v, want) for v in r)
                if not ok:
                    self.fails.append({"site": site, "key": desc, "what": "left operand symbolic (pinned by its bits)", "claripy": repr(r),
                                       "smtlib": repr(want)})
            except Exception as ex:  # noqa
                self.fails.append({"site": site, "key": desc, "what": "symbolic: raises %s: %s" % (type(ex).__name__, str(ex)[:80])})

    def run(self, tier, rng):
        self.rng = rng
        self.p_sym, self.p_nonrne = (0.15, 0.20) if tier == "thorough" else (0.06, 0.08)
        c, ref, z3 = self.c, self.ref, self.ref.z3
        RM, D, F = ref.RM, ref.D, ref.F
        thorough = tier == "thorough"
        for sort, pool in ((D, POOL_D), (F, POOL_F)):
            sn = sort.name
            other = F if sort == D else D
            vals = pool if thorough else [v for i, v in enumerate(pool) if i % 2 == 0 or math.isnan(v) or v == 0 or math.isinf(v)]
            for rm, zrm in ref.rms.items():
                rn = rm.value[3:]
                for a in vals:
                    ZA = ref.val(a, sort)
                    ha = "nan" if math.isnan(a) else a.hex()
                    self.check("sqrt:%s:%s" % (sn, rn), "sqrt|%s|%s|%s" % (sn, rn, ha), lambda A: c.fpSqrt(rm, A),
                               ref.fp(z3.fpSqrt(zrm, ZA), sort), sort, a)
                    self.check("fp2fp:%s:%s" % (sn, rn), "fp2fp|%s|%s|%s" % (sn, rn, ha), lambda A: c.fpToFP(rm, A, other),
                               ref.fp(z3.fpFPToFP(zrm, ZA, ref.zs[other]), other), sort, a)
                    # there and back again (the simplifier must not cancel a narrowing conversion)
                    self.check("roundtrip:%s:%s" % (sn, rn), "roundtrip|%s|%s|%s" % (sn, rn, ha),
                               lambda A: c.fpToFP(rm, c.fpToFP(rm, A, other), sort),
                               ref.fp(z3.fpFPToFP(zrm, z3.fpFPToFP(zrm, ZA, ref.zs[other]), ref.zs[sort]), sort), sort, a)
                    if not (math.isnan(a) or math.isinf(a)):
                        q = fractions.Fraction(a)
                        iv = exact_int(rm, RM, q)
                        for size in (8, 32, 64):
                            if -(1 << (size - 1)) <= iv <= (1 << (size - 1)) - 1:
                                self.check("toSBV:%s:%s" % (sn, rn), "toSBV|%s|%s|%s|%d" % (sn, rn, ha, size),
                                           lambda A: c.fpToSBV(rm, A, size), iv % (1 << size), sort, a)
                            if 0 <= iv <= (1 << size) - 1:
                                self.check("toUBV:%s:%s" % (sn, rn), "toUBV|%s|%s|%s|%d" % (sn, rn, ha, size),
                                           lambda A: c.fpToUBV(rm, A, size), iv, sort, a)
                    for b in (vals if thorough else rng.sample(vals, min(len(vals), 9))):
                        ZB = ref.val(b, sort)
                        B = c.FPV(b, sort)
                        hb = "nan" if math.isnan(b) else b.hex()
                        for nm, cf, zf in (("add", c.fpAdd, z3.fpAdd), ("sub", c.fpSub, z3.fpSub), ("mul", c.fpMul, z3.fpMul),
                                           ("div", c.fpDiv, z3.fpDiv)):
                            self.check("%s:%s:%s" % (nm, sn, rn), "%s|%s|%s|%s|%s" % (nm, sn, rn, ha, hb),
                                       lambda A, cf=cf: cf(rm, A, B), ref.fp(zf(zrm, ZA, ZB), sort), sort, a)
                        if rm == RM.RM_NearestTiesEven:
                            for nm, cf, zf in (("lt", c.fpLT, z3.fpLT), ("leq", c.fpLEQ, z3.fpLEQ), ("gt", c.fpGT, z3.fpGT),
                                               ("geq", c.fpGEQ, z3.fpGEQ), ("eq", c.fpEQ, z3.fpEQ)):
                                self.check("%s:%s" % (nm, sn), "%s|%s|%s|%s" % (nm, sn, ha, hb), lambda A, cf=cf: cf(A, B),
                                           z3.is_true(z3.simplify(zf(ZA, ZB))), sort, a)
                if rm == RM.RM_NearestTiesEven:
                    for a in vals:
                        ZA = ref.val(a, sort)
                        ha = "nan" if math.isnan(a) else a.hex()
                        self.check("neg:%s" % sn, "neg|%s|%s" % (sn, ha), lambda A: c.fpNeg(A), ref.fp(z3.fpNeg(ZA), sort), sort, a)
                        self.check("abs:%s" % sn, "abs|%s|%s" % (sn, ha), lambda A: c.fpAbs(A), ref.fp(z3.fpAbs(ZA), sort), sort, a)
                        self.check("isnan:%s" % sn, "isnan|%s|%s" % (sn, ha), lambda A: c.fpIsNaN(A), math.isnan(a), sort, a)
                        self.check("isinf:%s" % sn, "isinf|%s|%s" % (sn, ha), lambda A: c.fpIsInf(A), math.isinf(a), sort, a)
                        if not math.isnan(a):
                            bv = bits64(a) if sort == D else bits32(a)
                            self.check("toieeebv:%s" % sn, "toieeebv|%s|%s" % (sn, ha), lambda A: c.fpToIEEEBV(A), bv, sort, a)
                            # the cancellation rewrites
                            self.check("cancel:%s" % sn, "cancel1|%s|%s" % (sn, ha), lambda A: c.fpToFP(c.fpToIEEEBV(A), sort), a, sort, a)
                # integers to floats
                ints = {8: [0, 1, 127, 128, 255], 32: [0, 1, 0x7FFFFFFF, 0x80000000, 0xFFFFFFFF, 16777217, 16777219],
                        64: [0, 1, 2 ** 53 + 1, 2 ** 63, 2 ** 64 - 1, 2 ** 63 - 1, 9007199254740993, 2 ** 24 + 1, (2 ** 53 + 1) * 1024 + 1,
                             0x8000000000000400, 2 ** 62 + 2 ** 38 + 1]}
                for w_, l in ints.items():
                    for i in l:
                        if rng.random() > (1.0 if thorough else 0.3):
                            continue
                        self.stats["checks"] += 2
                        for nm, cf, zf in (("s2fp", lambda I: c.fpToFP(rm, I, sort), lambda ZI: z3.fpSignedToFP(zrm, ZI, ref.zs[sort])),
                                           ("u2fp", lambda I: c.fpToFPUnsigned(rm, I, sort), lambda ZI: z3.fpUnsignedToFP(zrm, ZI, ref.zs[sort]))):
                            site, key = "%s:%s:%s" % (nm, sn, rn), "%s|%s|%s|%d|%d" % (nm, sn, rn, i, w_)
                            try:
                                want = ref.fp(zf(z3.BitVecVal(i, w_)), sort)
                                got = self.value_of(cf(c.BVV(i, w_)))
                                if not same(got, want):
                                    self.fails.append({"site": site, "key": key, "what": "constant operand", "claripy": repr(got), "smtlib": repr(want)})
                                    continue
                                x = c.BVS("c02i%d" % w_, w_)
                                s = c.Solver()
                                s.add(x == i)
                                r = s.eval(cf(x), 2)
                                if len(r) != 1 or not same(r[0], want):
                                    self.fails.append({"site": site, "key": key, "what": "symbolic operand", "claripy": repr(r), "smtlib": repr(want)})
                            except Exception as ex:  # noqa
                                self.fails.append({"site": site, "key": key, "what": "raises %s: %s" % (type(ex).__name__, str(ex)[:80])})


def main(tier, seed, replay=None):
    sys.path.insert(0, REPO)
    logging.disable(logging.CRITICAL)
    import claripy
    rep = Report(PROP, tier, seed)
    if replay:
        r = json.load(open(replay))
        print("replay file records:", json.dumps(r, default=str)[:2000])
        return 1
    regen_all()
    ok_make, log = coq_make(["Proofs/FPFoldSound.vo"])
    pr = check_props(PROP, extra_axioms=FLOAT_AXIOMS) if ok_make else {"ok": False, "obligations": [
        {"name": "C02_*", "closed": False, "axioms": ["<does not compile>"], "ok": False}], "log": log[-3000:]}
    rep.obligations(pr, "make Proofs/FPFoldSound.vo && coqc -R coq CV coq/Props/C02.v (Print Assumptions)")
    forb = scan_forbidden()
    proof_ok = pr["ok"] and not forb
    stats = collections.Counter()
    try:
        mismatch = correspondence(claripy, random.Random(seed), stats, 1500 if tier == "thorough" else 250) if ok_make else None
    except Exception as ex:  # noqa
        mismatch = {"exception": repr(ex)}
    se = Search(claripy, stats)
    se.run(tier, random.Random(DOMAIN_SEED))
    rep.count(n=stats["checks"])
    kf = {f["site"]: f for f in known_findings(PROP)}
    new = collections.defaultdict(list)
    for f in se.fails:
        if f["site"] in kf and (kf[f["site"]].get("key") in (None, "", f["key"]) or f["key"] in (kf[f["site"]].get("text") or "")):
            rep.known(kf[f["site"]], json.dumps(f, default=str)[:240])
        else:
            new[f["site"]].append(f)
    for s in sorted(new):
        rep.violation({"site": s, "count": len(new[s]), "failures": new[s][:20],
                       "input_format": "operation|sort|rounding mode|operands as float.hex()"})
    rep._distinct = range(stats["checks"])
    rep.cov["rule"] = ("double and single precision; pools of 43/40 values (signed zeros, subnormals, infinities, NaN, ties, overflow and "
                       "underflow boundaries); add/sub/mul/div over pairs, sqrt, conversions between the sorts and there and back again, "
                       "to signed/unsigned integers of 8/32/64 bits (in-range values), from integers, comparisons, neg/abs/isNaN/isInf, "
                       "fpToIEEEBV and its cancellation; all five rounding modes; with constant operands and with the left operand "
                       "symbolic and pinned by its bit pattern; reference: an independently built Z3 term")
    rep.cov["histogram"] = dict(stats)
    rep.cov["traces_validated_against_impl"] = sum(v for k, v in stats.items() if k.startswith("corr_")) if not mismatch else 0
    if not new and (not proof_ok or mismatch):
        rep.violation({"broken": {"obligations_not_discharged": [o for o in pr["obligations"] if not o["ok"]], "forbidden": forb,
                                  "model_mismatch": mismatch, "coq_log_tail": pr.get("log", "")[-1200:]},
                       "note": "theorem or correspondence no longer checks; the comparison with Z3 found no differing value"},
                      found_input=False)
    elif new and mismatch:
        print("note: model/implementation mismatch as well: %s" % json.dumps(mismatch, default=str)[:500])
    rep.cov["trusted_base"] = KERNEL_TB + [
        "Print Assumptions of Props/C02.v: Coq's primitive floats/63-bit integers (kernel primitives) and the standard library's axiomatic "
        "specification of them (Coq.Floats.FloatAxioms: Prim2SF_valid, SF2Prim_Prim2SF, Prim2SF_SF2Prim, add_spec, sub_spec, mul_spec, "
        "div_spec, sqrt_spec, opp_spec, abs_spec, eqb_spec, ltb_spec, leb_spec), used through Flocq.IEEE754.PrimFloat; for the "
        "double-rounding theorems the standard library's real-number axioms (ClassicalDedekindReals.sig_forall_dec, sig_not_dec, "
        "Classical_Prop.classic, FunctionalExtensionality.functional_extensionality_dep)",
        "Flocq 4 (IEEE754.BinarySingleNaN as the meaning of IEEE-754 / SMT-LIB operations; Prop.Double_rounding)",
        "Python's float is IEEE-754 binary64 with round-to-nearest-even (CPython on this platform); Model/FPFold.v is hand-written; "
        "vm_compute on primitive floats evaluates the model (no native_compute)",
        "conversions, rounding modes other than RNE (not folded since the repair), Z3's FPA implementation (the reference of the "
        "search) are not modelled",
    ]
    rep.assumptions = ["Z3's floating-point theory implements SMT-LIB FloatingPoint (reference of the search)"]
    return rep.finish("proof")
