"""C23: discrete strided-interval sets and region value sets are sound abstractions.

  1. theorems: Props/C23.v (generic lifting / collapse / per-region theorems, and their instances over the strided-interval model);
  2. correspondence: the extracted lifted add/sub/neg (sets and value sets) against the real DiscreteStridedIntervalSet / ValueSet:
     the member sets must be equal; the model's traced value-set union against the region structure of the real union;
  3. search: every lifted operation of the real code must contain what the same operation yields on each (pair of) member(s);
     union/collapse/normalize must contain every member value; per region for value sets; the queries must agree with the members.
     The element-level operations themselves are C21/C22's subject: a lifted result is only required to contain what the
     member-level results contain.
"""
from __future__ import annotations

import collections
import itertools
import json
import logging
import random
import sys

from common import KERNEL_TB, REPO, Driver, Report, build_driver, check_props, coq_make, known_findings, regen_all, scan_forbidden
from sicheck import CMP, SI_DRIVER, Dom, all_keys, keystr, mk, parse_key, rand_key

PROP = "C23"
REGIONS = ("global", "stack", "heap")


class Env:
    def __init__(self):
        sys.path.insert(0, REPO)
        logging.disable(logging.CRITICAL)
        sys.setrecursionlimit(400)
        import claripy
        from claripy.backends.backend_vsa import DiscreteStridedIntervalSet, StridedInterval, ValueSet
        from claripy.backends.backend_vsa import strided_interval as si_mod
        self.claripy, self.D, self.SI, self.VS, self.si_mod = claripy, DiscreteStridedIntervalSet, StridedInterval, ValueSet, si_mod


E = None


def gam(x):
    """members of a library object by the definition: a set is the union of its members"""
    if isinstance(x, E.D):
        out = set()
        for m in x._si_set:
            out |= gam(m)
        return out
    if x.is_empty:
        return set()
    if getattr(x, "_reversed", False):
        x = x._reverse()
    d = Dom((x.bits, x.stride, x.lower_bound, x.upper_bound))
    return set(d.sample(1 << 20)) if d.count <= 4096 else None


def flat_members(x):
    """the plain intervals inside a (possibly nested) set"""
    if isinstance(x, E.D):
        out = []
        for m in x._si_set:
            out.extend(flat_members(m))
        return out
    return [] if x.is_empty else [x]


def key_of(x):
    return (x.bits, x.stride, x.lower_bound, x.upper_bound)


def mkset(keys, maxc=None):
    return E.D(bits=keys[0][0], si_set={mk(E.SI, k) for k in keys}, max_cardinality=maxc)


def operand(spec):
    """spec: ('set', keys) | ('si', key) | ('int', w, v)"""
    if spec[0] == "set":
        return mkset(spec[1])
    if spec[0] == "si":
        return mk(E.SI, spec[1])
    return spec[2]


def operand_members(spec, raw_int=False):
    if spec[0] == "int" and raw_int:
        return [spec[2]]     # shifts take the integer as it is
    if spec[0] == "set":
        return [mk(E.SI, k) for k in spec[1]]
    if spec[0] == "si":
        return [mk(E.SI, spec[1])]
    return [E.SI(bits=spec[1], stride=0, lower_bound=spec[2], upper_bound=spec[2])]


def spec_str(spec):
    if spec[0] == "set":
        return "{" + " ".join(keystr(k) for k in spec[1]) + "}"
    if spec[0] == "si":
        return keystr(spec[1])
    return "int:%d" % spec[2]


BIN_OPS = {
    "add": "__add__", "sub": "__sub__", "and": "__and__", "or": "__or__", "xor": "__xor__", "floordiv": "__floordiv__", "mod": "__mod__",
    "lshift": "__lshift__", "rshift": "__rshift__", "concat": "concat", "radd": "__radd__", "rand": "__rand__",
}
UN_OPS = {"neg": lambda a: -a, "invert": lambda a: ~a, "reverse": lambda a: a.reverse()}
CMP_OPS = {"eq": "__eq__", "ne": "__ne__", "UGT": "UGT", "ULE": "ULE", "ULT": "ULT", "UGE": "UGE"}
CMP_SEM = dict(CMP, ne=lambda x, y, w: x != y)


def refusal(ex):
    return type(ex).__name__.startswith("Claripy") or isinstance(ex, NotImplementedError)


class Checker:
    def __init__(self, rep, stats):
        self.rep, self.stats = rep, stats
        self.fails = []

    def fail(self, site, what, **kw):
        self.fails.append(dict(site=site, what=what, **kw))

    # ---- sets ----
    def lifted_binary(self, op, sa, sb):
        """the real set operation must contain what the member-level operation yields on every pair"""
        self.stats["dsis_" + op] += 1
        meth = BIN_OPS[op]
        raw = op in ("lshift", "rshift")
        try:
            r = getattr(operand(sa), meth)(operand(sb))
        except RecursionError:
            return
        except Exception as ex:  # noqa
            # the lifted operation may refuse only if a member-level operation refuses
            for a in operand_members(sa):
                for b in operand_members(sb, raw):
                    try:
                        getattr(a, meth)(b)
                    except Exception:  # noqa
                        return
            if not refusal(ex):
                self.fail("dsis." + op, "raises %s although every member-level operation answers" % type(ex).__name__,
                          a=spec_str(sa), b=spec_str(sb))
            return
        gr = gam(r)
        if gr is None:
            return
        for a in operand_members(sa):
            for b in operand_members(sb, raw):
                try:
                    m = getattr(a, meth)(b)
                    gm = gam(m)
                except Exception:  # noqa
                    continue
                if gm is None:
                    continue
                if not gm <= gr:
                    self.fail("dsis." + op, "the result lacks values of the member-level result", a=spec_str(sa), b=spec_str(sb),
                              member_pair=[keystr(key_of(a)), b if isinstance(b, int) else keystr(key_of(b))], missing=sorted(gm - gr)[:8], result=repr(r))
                    return

    def lifted_unary(self, op, sa, call=None, name=None):
        self.stats["dsis_" + (name or op)] += 1
        f = call or UN_OPS[op]
        try:
            r = f(operand(sa))
        except Exception:  # noqa
            return
        gr = gam(r)
        if gr is None:
            return
        for a in operand_members(sa):
            try:
                gm = gam(f(a))
            except Exception:  # noqa
                continue
            if gm is not None and not gm <= gr:
                self.fail("dsis." + (name or op), "the result lacks values of the member-level result", a=spec_str(sa),
                          member=keystr(key_of(a)), missing=sorted(gm - gr)[:8], result=repr(r))
                return

    def set_union(self, sa, sb, maxc=None):
        self.stats["dsis_union"] += 1
        A = operand(sa)
        if maxc is not None and isinstance(A, E.D):
            A._max_cardinality = maxc
        B = operand(sb)
        want = set()
        for m in operand_members(sa) + operand_members(sb):
            want |= gam(m)
        for desc, f in (("a.union(b)", lambda: A.union(B)), ("b.union(a)", lambda: B.union(A))):
            try:
                r = f()
            except RecursionError:
                continue
            except Exception as ex:  # noqa
                if not refusal(ex):
                    self.fail("dsis.union", "%s raises %s" % (desc, type(ex).__name__), a=spec_str(sa), b=spec_str(sb))
                continue
            gr = gam(r)
            if gr is not None and not want <= gr:
                self.fail("dsis.union", "%s lacks member values" % desc, a=spec_str(sa), b=spec_str(sb), max_cardinality=maxc,
                          missing=sorted(want - gr)[:8], result=repr(r))
                return
            self.queries(r, "union result of %s, %s" % (spec_str(sa), spec_str(sb)))

    def set_collapse(self, sa, maxc):
        self.stats["dsis_collapse"] += 1
        want = set()
        for m in operand_members(sa):
            want |= gam(m)
        for desc, f in (("collapse", lambda d: d.collapse()), ("normalize", lambda d: d.normalize())):
            d = mkset(sa[1], maxc)
            try:
                r = f(d)
            except RecursionError:
                continue
            gr = gam(r)
            if gr is not None and not want <= gr:
                self.fail("dsis." + desc, "lacks member values", a=spec_str(sa), max_cardinality=maxc, missing=sorted(want - gr)[:8],
                          result=repr(r))
                return

    def set_intersection(self, sa, sb):
        self.stats["dsis_intersection"] += 1
        try:
            r = operand(sa).intersection(operand(sb))
        except Exception:  # noqa
            return
        gr = gam(r)
        for a in operand_members(sa):
            for b in operand_members(sb):
                try:
                    gm = gam(a.intersection(b))
                except Exception:  # noqa
                    continue
                if gm is not None and gr is not None and not gm <= gr:
                    self.fail("dsis.intersection", "lacks values of a member-level intersection", a=spec_str(sa), b=spec_str(sb),
                              missing=sorted(gm - gr)[:8], result=repr(r))
                    return

    def set_compare(self, op, sa, sb):
        """a truth value that a member-level comparison reports correctly must be reported by the set-level comparison"""
        self.stats["dsis_cmp_" + op] += 1
        w = sa[1][0][0] if sa[0] == "set" else sa[1][0]
        try:
            r = getattr(operand(sa), CMP_OPS[op])(operand(sb))
            allowed = frozenset(r.value)
        except Exception:  # noqa
            return
        f = CMP_SEM[op]
        for a in operand_members(sa):
            for b in operand_members(sb):
                try:
                    mv = frozenset(getattr(a, CMP_OPS[op])(b).value)
                except Exception:  # noqa
                    continue
                ga, gb = gam(a), gam(b)
                for x in ga:
                    for y in gb:
                        t = f(x, y, w)
                        if t in mv and t not in allowed:
                            self.fail("dsis.cmp", "%s excludes a truth value that occurs" % op, a=spec_str(sa), b=spec_str(sb),
                                      x=x, y=y, truth=t, result=sorted(allowed))
                            return

    def queries(self, d, desc):
        """eval / min / max / cardinality of a set against its members"""
        if not isinstance(d, E.D):
            return
        self.stats["dsis_queries"] += 1
        g = gam(d)
        if g is None or not g:
            return
        n = 1 << d.bits
        try:
            big = d.eval(len(g) + 3)
            small = d.eval(max(1, len(g) - 1))
            lo, hi, card = d.min(), d.max(), d.cardinality
        except Exception as ex:  # noqa
            if not refusal(ex) and not isinstance(ex, RecursionError):
                self.fail("dsis.queries", "raises %s" % type(ex).__name__, a=desc)
            return
        if not set(v % n for v in big) <= g:
            self.fail("dsis.eval", "lists a value that no member has", a=desc, got=sorted(big)[:12], members=sorted(g)[:12])
        elif set(big) != g:
            self.fail("dsis.eval", "omits member values although n allows them", a=desc, got=sorted(big)[:12], members=sorted(g)[:12])
        elif len(small) > max(1, len(g) - 1):
            self.fail("dsis.eval", "returns more than n values", a=desc)
        elif lo is None or hi is None or lo > min(g) or hi < max(g):
            self.fail("dsis.minmax", "min/max cut off member values", a=desc, min=lo, max=hi, members=sorted(g)[:12])
        elif card < len(g):
            self.fail("dsis.cardinality", "smaller than the number of member values", a=desc, cardinality=card, members=len(g))

    # ---- value sets ----
    def make_vs(self, assign):
        """assign: tuple of key|None per region"""
        w = next(k[0] for k in assign if k is not None) if any(k is not None for k in assign) else 3
        vs = E.VS(bits=w)
        for region, k in zip(REGIONS, assign):
            if k is not None:
                vs._merge_si(region, 0, mk(E.SI, k))
        return vs

    def vs_str(self, assign):
        return "{" + ", ".join("%s=%s" % (r, keystr(k)) for r, k in zip(REGIONS, assign) if k is not None) + "}"

    def vs_regions(self, r):
        return {region: gam(si) for region, si in r.items()}

    def vs_with_si(self, op, assign, key):
        """vs op interval: every region separately must contain the member-level result"""
        self.stats["vs_" + op] += 1
        vs, o = self.make_vs(assign), mk(E.SI, key)
        f = {"add": lambda a, b: a + b, "sub": lambda a, b: a - b, "mod": lambda a, b: a % b, "and": lambda a, b: a & b,
             "radd": lambda a, b: b + a, "concat": lambda a, b: a.concat(b), "union_si": lambda a, b: a.union(b),
             "intersection_si": lambda a, b: a.intersection(b)}[op]
        try:
            r = f(vs, o)
        except RecursionError:
            return
        except Exception as ex:  # noqa
            for region, k in zip(REGIONS, assign):
                if k is not None:
                    try:
                        f(mk(E.SI, k), mk(E.SI, key)) if op not in ("union_si", "intersection_si") else None
                    except Exception:  # noqa
                        return
            if not refusal(ex):
                self.fail("vs." + op, "raises %s although every region-level operation answers" % type(ex).__name__,
                          a=self.vs_str(assign), b=keystr(key))
            return
        member = {"union_si": lambda a, b: a.union(b), "intersection_si": lambda a, b: a.intersection(b), "radd": lambda a, b: b + a}.get(op, f)
        for region, k in zip(REGIONS, assign):
            if k is None:
                continue
            try:
                gm = gam(member(mk(E.SI, k), mk(E.SI, key)))
            except Exception:  # noqa
                continue
            if gm is None:
                continue
            if isinstance(r, E.VS):
                if not gm:
                    continue
                got = gam(r.get_si(region)) if r.get_si(region) is not None else set()
            else:
                got = gam(r)   # some operations answer with one interval for all regions
            if got is not None and not gm <= got:
                self.fail("vs." + op, "region %s lacks values of the region-level result" % region, a=self.vs_str(assign), b=keystr(key),
                          missing=sorted(gm - got)[:8], result=repr(dict(r.items())) if isinstance(r, E.VS) else repr(r))
                return
        if isinstance(r, E.VS):
            self.vs_queries(r, "%s %s %s" % (self.vs_str(assign), op, keystr(key)))

    def vs_with_vs(self, op, a1, a2):
        self.stats["vs_" + op] += 1
        A, B = self.make_vs(a1), self.make_vs(a2)
        try:
            r = {"union": lambda: A.union(B), "intersection": lambda: A.intersection(B), "widen": lambda: A.widen(B),
                 "sub_vs": lambda: A - B}[op]()
        except RecursionError:
            return
        except Exception as ex:  # noqa
            if not refusal(ex):
                self.fail("vs." + op, "raises %s" % type(ex).__name__, a=self.vs_str(a1), b=self.vs_str(a2))
            return
        for region, ka, kb in zip(REGIONS, a1, a2):
            sa = mk(E.SI, ka) if ka is not None else None
            sb = mk(E.SI, kb) if kb is not None else None
            if op == "union":
                want = (gam(sa) if sa is not None else set()) | (gam(sb) if sb is not None else set())
            elif op == "intersection":
                if sa is None or sb is None:
                    continue
                try:
                    want = gam(sa.intersection(sb))
                except Exception:  # noqa
                    continue
            elif op == "widen":
                if sa is None:
                    want = gam(sb) if sb is not None else set()
                elif sb is None:
                    want = gam(sa)
                else:
                    try:
                        want = gam(sa.widen(sb))
                    except Exception:  # noqa
                        continue
            else:   # sub_vs: one interval holding the differences of every region
                if sa is None or sb is None:
                    continue
                try:
                    want = gam(sa - sb)
                except Exception:  # noqa
                    continue
            if want is None or not want:
                continue
            if isinstance(r, E.VS):
                got = gam(r.get_si(region)) if r.get_si(region) is not None else set()
            else:
                got = gam(r)
            if got is not None and not want <= got:
                self.fail("vs." + op, "region %s lacks values" % region, a=self.vs_str(a1), b=self.vs_str(a2),
                          missing=sorted(want - got)[:8], result=repr(dict(r.items())) if isinstance(r, E.VS) else repr(r))
                return
        if isinstance(r, E.VS):
            self.vs_queries(r, "%s %s %s" % (self.vs_str(a1), op, self.vs_str(a2)))

    def vs_extract(self, assign, hi, lo):
        self.stats["vs_extract"] += 1
        vs = self.make_vs(assign)
        try:
            r = vs.extract(hi, lo)
        except Exception:  # noqa
            return
        if isinstance(r, E.VS):
            for region, k in zip(REGIONS, assign):
                if k is not None and not gam(mk(E.SI, k)) <= (gam(r.get_si(region)) if r.get_si(region) is not None else set()):
                    self.fail("vs.extract", "full-width extract lost values of region %s" % region, a=self.vs_str(assign))
                    return
        else:
            got = gam(r)
            for region, k in zip(REGIONS, assign):
                if k is None:
                    continue
                want = {(x >> lo) & ((1 << (hi - lo + 1)) - 1) for x in gam(mk(E.SI, k))}
                if got is not None and not want <= got:
                    self.fail("vs.extract", "lacks extracted values of region %s" % region, a=self.vs_str(assign), hi=hi, lo=lo,
                              missing=sorted(want - got)[:8], result=repr(r))
                    return

    def vs_queries(self, r, desc):
        self.stats["vs_queries"] += 1
        regs = self.vs_regions(r)
        if any(v is None for v in regs.values()):
            return
        allv = set().union(*regs.values()) if regs else set()
        total = sum(len(v) for v in regs.values())
        try:
            got = r.eval(total + 3)
        except Exception as ex:  # noqa
            if not refusal(ex) and not isinstance(ex, RecursionError):
                self.fail("vs.eval", "raises %s" % type(ex).__name__, a=desc)
            return
        if set(got) != allv:
            self.fail("vs.eval", "eval disagrees with the members", a=desc, got=sorted(got)[:12], members=sorted(allv)[:12])
            return
        if len(regs) == 1 and allv:
            try:
                lo, hi = r.min(), r.max()
            except Exception:  # noqa
                return
            inner = next(iter(r.regions.values()))
            try:
                ilo, ihi = inner.min(), inner.max()
            except Exception:  # noqa
                return
            if (lo, hi) != (ilo, ihi):
                self.fail("vs.minmax", "min/max differ from the single region's", a=desc, got=[lo, hi], region=[ilo, ihi])
        try:
            card = r.cardinality
        except Exception:  # noqa
            return
        if isinstance(card, int) and card < len(allv):
            self.fail("vs.cardinality", "smaller than the number of member values", a=desc, cardinality=card, members=len(allv))

    def ast_level(self, a1, a2, key):
        """the same through the AST layer and the VSA backend"""
        self.stats["ast_level"] += 1
        c = E.claripy

        def build(assign):
            out = None
            for region, k in zip(REGIONS, assign):
                if k is None:
                    continue
                v = c.ValueSet(k[0], region, 0, c.SI(bits=k[0], stride=k[1], lower_bound=k[2], upper_bound=k[3]))
                out = v if out is None else out.union(v)
            return out
        p, q = build(a1), build(a2)
        if p is None or q is None:
            return
        o = c.SI(bits=key[0], stride=key[1], lower_bound=key[2], upper_bound=key[3])
        for desc, ast, direct in (
            ("union", lambda: p.union(q), lambda: self.make_vs(a1).union(self.make_vs(a2))),
            ("add", lambda: p + o, lambda: self.make_vs(a1) + mk(E.SI, key)),
            ("sub", lambda: p - o, lambda: self.make_vs(a1) - mk(E.SI, key)),
        ):
            try:
                m = c.backends.vsa.convert(ast())
                d = direct()
            except Exception:  # noqa
                continue
            if not isinstance(m, E.VS):
                continue
            for region, si in d.items():
                want = gam(si)
                got = gam(m.get_si(region)) if m.get_si(region) is not None else set()
                if want is not None and got is not None and not want <= got:
                    self.fail("vs.ast_" + desc, "region %s of the backend's value lacks values of the direct result" % region,
                              a=self.vs_str(a1), b=self.vs_str(a2) if desc == "union" else keystr(key), missing=sorted(want - got)[:8])
                    return


# ----------------------------------------------------------------------------------------------
# correspondence with the extracted model
# ----------------------------------------------------------------------------------------------

def si_sx(k):
    return [k[0], k[1], k[2], k[3], 0]


def parse_si_list(r):
    return {tuple(int(v) for v in s[:4]) for s in r}


def correspondence(drv, rng, stats, n_cases):
    """-> None | mismatch dict"""
    def real_keys(x):
        return {key_of(m) for m in flat_members(x)}
    for i in range(n_cases):
        w = rng.choice([2, 3, 3, 4, 5, 6, 8])
        ks = [k for k in (rand_key(rng, w) for _ in range(rng.randint(1, 3)))]
        kt = [k for k in (rand_key(rng, w) for _ in range(rng.randint(1, 3)))]
        ks, kt = sorted(set(ks)), sorted(set(kt))
        if sum(Dom(k).count for k in ks) > 200 or sum(Dom(k).count for k in kt) > 200:
            continue
        for op, meth in (("dsis_add", "__add__"), ("dsis_sub", "__sub__")):
            out = drv.ask([op, [si_sx(k) for k in ks], [si_sx(k) for k in kt]])
            if out[0] != "ok":
                return {"op": op, "a": [keystr(k) for k in ks], "b": [keystr(k) for k in kt], "model": out}
            model = parse_si_list(out[1])
            if sum(Dom(k).count for k in model) > 250:
                continue   # the real set would collapse
            real = real_keys(getattr(mkset(ks), meth)(mkset(kt)))
            stats["corr_" + op] += 1
            if model != real:
                return {"op": op, "a": [keystr(k) for k in ks], "b": [keystr(k) for k in kt],
                        "model": sorted(keystr(k) for k in model), "real": sorted(keystr(k) for k in real)}
        out = drv.ask(["dsis_neg", [si_sx(k) for k in ks]])
        if out[0] != "ok":
            return {"op": "dsis_neg", "a": [keystr(k) for k in ks], "model": out}
        d = mkset(ks)
        real = real_keys(E.D(bits=w, si_set={m.neg() for m in d._si_set}))
        stats["corr_dsis_neg"] += 1
        if parse_si_list(out[1]) != real:
            return {"op": "dsis_neg", "a": [keystr(k) for k in ks], "model": out[1], "real": sorted(keystr(k) for k in real)}
        out = drv.ask(["dsis_not", [si_sx(k) for k in ks]])
        if out[0] != "ok":
            return {"op": "dsis_not", "a": [keystr(k) for k in ks], "model": out}
        real = real_keys(E.D(bits=w, si_set={m.bitwise_not() for m in d._si_set}))
        stats["corr_dsis_not"] += 1
        if parse_si_list(out[1]) != real:
            return {"op": "dsis_not", "a": [keystr(k) for k in ks], "model": out[1], "real": sorted(keystr(k) for k in real)}
        # value sets
        assign = [rand_key(rng, w) if rng.random() < 0.7 else None for _ in REGIONS]
        if all(k is None for k in assign):
            assign[0] = rand_key(rng, w)
        c = rand_key(rng, w)
        vs = E.VS(bits=w)
        for region, k in zip(REGIONS, assign):
            if k is not None:
                vs._merge_si(region, 0, mk(E.SI, k))
        for op, f in (("vs_add", lambda a, b: a + b), ("vs_sub", lambda a, b: a - b)):
            out = drv.ask([op, [[i, si_sx(k)] for i, k in enumerate(assign) if k is not None], si_sx(c)])
            if out[0] != "ok":
                return {"op": op, "a": [k and keystr(k) for k in assign], "b": keystr(c), "model": out}
            model = {REGIONS[int(r[0])]: tuple(int(v) for v in r[1][:4]) for r in out[1]}
            r = f(vs, mk(E.SI, c))
            real = {region: key_of(si) for region, si in r.items()}
            stats["corr_" + op] += 1
            if model != real:
                return {"op": op, "a": [k and keystr(k) for k in assign], "b": keystr(c), "model": {k: keystr(v) for k, v in model.items()},
                        "real": {k: keystr(v) for k, v in real.items()}}
        # traced union: the region structure, and which operand members each region's interval must cover
        a2 = [rand_key(rng, w) if rng.random() < 0.6 else None for _ in REGIONS]
        ids1 = [(i, k) for i, k in enumerate(assign) if k is not None]
        ids2 = [(i, k) for i, k in enumerate(a2) if k is not None]
        out = drv.ask(["vunion", [[i, [i]] for i, _ in ids1], [[i, [10 + i]] for i, _ in ids2]])
        vs2 = E.VS(bits=w)
        for region, k in zip(REGIONS, a2):
            if k is not None:
                vs2._merge_si(region, 0, mk(E.SI, k))
        r = vs.union(vs2)
        stats["corr_vunion"] += 1
        model_regions = {REGIONS[int(x[0])]: [int(v) for v in x[1]] for x in out}
        if set(model_regions) != set(dict(r.items())):
            return {"op": "vunion", "a": [k and keystr(k) for k in assign], "b": [k and keystr(k) for k in a2],
                    "model_regions": sorted(model_regions), "real_regions": sorted(dict(r.items()))}
        for region, ids in model_regions.items():
            got = gam(r.get_si(region))
            for i in ids:
                k = assign[i] if i < 10 else a2[i - 10]
                want = gam(mk(E.SI, k))
                if got is not None and want is not None and not want <= got:
                    return {"op": "vunion", "region": region, "a": [k and keystr(k) for k in assign], "b": [k and keystr(k) for k in a2],
                            "model_joins": ids, "missing": sorted(want - got)[:8]}
    return None


# ----------------------------------------------------------------------------------------------

def nice_keys(w):
    """non-wrapping intervals whose upper bound is a member"""
    n = 1 << w
    out = [(w, 0, v, v) for v in range(n)]
    for st in range(1, n):
        for lo in range(n):
            for k in range(1, n):
                if lo + k * st < n:
                    out.append((w, st, lo, lo + k * st))
    return out


def main(tier, seed, replay=None):
    global E
    E = Env()
    rep = Report(PROP, tier, seed)
    rng = random.Random(seed)
    if replay:
        r = json.load(open(replay))
        print("replay file records:", json.dumps(r, default=str)[:2000])
        return 1
    regen_all()
    ok_make, log = coq_make(["Proofs/LiftSI.vo"])
    pr = check_props(PROP) if ok_make else {"ok": False, "obligations": [
        {"name": "C23_*", "closed": False, "axioms": ["<does not compile>"], "ok": False}], "log": log[-3000:]}
    rep.obligations(pr, "make Proofs/LiftSI.vo && coqc -R coq CV coq/Props/C23.v (Print Assumptions)")
    forb = scan_forbidden()
    proof_ok = pr["ok"] and not forb
    okd, dlog = build_driver(*SI_DRIVER)
    stats = collections.Counter()
    ck = Checker(rep, stats)
    mismatch = None
    thorough = tier == "thorough"
    with E.si_mod._allow_dsis(True):
        if okd:
            drv = Driver("sidriver")
            try:
                mismatch = correspondence(drv, random.Random(seed + 1), stats, 1500 if thorough else 250)
            except Exception as ex:  # noqa
                mismatch = {"exception": repr(ex)}
            finally:
                drv.close()
        # ---- sets ----
        n_sets = 6000 if thorough else 900
        pools = {w: nice_keys(w) for w in (2, 3)}
        allk = {w: [k for k in all_keys(w) if k[1] is not None] for w in (2, 3)}
        for i in range(n_sets):
            w = rng.choice([2, 3, 3, 3, 4, 5, 6])
            def pick():
                if w <= 3:
                    return rng.choice(pools[w]) if rng.random() < 0.6 else rng.choice(allk[w])
                return rand_key(rng, w)
            def pick_set():
                return ("set", sorted({pick() for _ in range(rng.randint(2, 3))}))
            def pick_operand():
                c = rng.random()
                if c < 0.5:
                    return pick_set()
                if c < 0.85:
                    return ("si", pick())
                return ("int", w, rng.randrange(1 << w))
            sa = pick_set()
            if len(sa[1]) < 2:
                continue
            sb = pick_operand()
            rep.count((i, "set"))
            op = rng.choice(list(BIN_OPS))
            if op in ("lshift", "rshift") and sb[0] == "set":
                sb = ("si", pick())
            if op == "concat" and sb[0] == "int":
                sb = ("si", pick())
            ck.lifted_binary(op, sa, sb)
            ck.lifted_unary(rng.choice(list(UN_OPS)), sa)
            hi = rng.randrange(w)
            lo = rng.randrange(hi + 1)
            ck.lifted_unary("extract", sa, call=lambda a, hi=hi, lo=lo: a.extract(hi, lo), name="extract")
            ext = w + rng.randint(1, 3)
            ck.lifted_unary("zext", sa, call=lambda a, ext=ext: a.zero_extend(ext), name="zero_extend")
            ck.lifted_unary("sext", sa, call=lambda a, ext=ext: a.sign_extend(ext), name="sign_extend")
            if sb[0] != "int":
                ck.set_union(sa, sb, maxc=rng.choice([None, None, 2, 4, 8]))
                ck.set_intersection(sa, sb)
                ck.set_compare(rng.choice(list(CMP_OPS)), sa, sb)
            ck.set_collapse(sa, rng.choice([1, 2, 3, 5, 256]))
            ck.queries(operand(sa), spec_str(sa))
            if len(ck.fails) > 40:
                break
        # exhaustive part at width 3 (the seeded family): set of two U interval, both orders
        fam = nice_keys(3)
        step = 1 if thorough else 7
        pairs = list(itertools.combinations(fam, 2))
        for j, (k1, k2) in enumerate(pairs[rng.randrange(step)::step]):
            for k3 in fam[rng.randrange(3)::3 if thorough else 11]:
                rep.count((k1, k2, k3, "u"))
                ck.set_union(("set", [k1, k2]), ("si", k3))
            if len(ck.fails) > 40:
                break
        # ---- value sets ----
        n_vs = 5000 if thorough else 800
        vpool = {3: [None, (3, 0, 2, 2), (3, 1, 1, 3), (3, 2, 0, 6), (3, 1, 4, 7), (3, 3, 1, 7), (3, 2, 6, 2), (3, 1, 6, 1)]}
        for i in range(n_vs):
            w = rng.choice([3, 3, 3, 4, 5, 6])
            def pick_assign():
                if w == 3:
                    return tuple(rng.choice(vpool[3]) for _ in REGIONS)
                return tuple(rand_key(rng, w) if rng.random() < 0.6 else None for _ in REGIONS)
            a1, a2 = pick_assign(), pick_assign()
            key = rng.choice(vpool[3][1:]) if w == 3 else rand_key(rng, w)
            if all(k is None for k in a1):
                continue
            rep.count((i, "vs"))
            ck.vs_with_si(rng.choice(["add", "sub", "mod", "and", "radd", "union_si", "intersection_si"]), a1, key)
            ck.vs_with_vs(rng.choice(["union", "union", "intersection", "widen", "sub_vs"]), a1, a2)
            hi = rng.randrange(w)
            ck.vs_extract(a1, hi if rng.random() < 0.7 else w - 1, rng.randrange(hi + 1) if rng.random() < 0.7 else 0)
            ck.vs_queries(ck.make_vs(a1), ck.vs_str(a1))
            if i % 5 == 0:
                ck.ast_level(a1, a2, key)
            if len(ck.fails) > 40:
                break
        # exhaustive: all pairs of value sets over the small pool (the seeded family)
        small = [None, (3, 2, 0, 2), (3, 1, 1, 3), (3, 2, 0, 6), (3, 1, 4, 7)]
        assigns = list(itertools.product(small, repeat=3))
        prs = list(itertools.product(assigns, repeat=2))
        stepv = 1 if thorough else 13
        for a1, a2 in prs[rng.randrange(stepv)::stepv]:
            if all(k is None for k in a1) and all(k is None for k in a2):
                continue
            rep.count((a1, a2, "vu"))
            ck.vs_with_vs("union", a1, a2)
            if len(ck.fails) > 40:
                break
    # ---- report ----
    kf = {f["site"]: f for f in known_findings(PROP)}
    new = collections.defaultdict(list)
    for f in ck.fails:
        if f["site"] in kf:
            rep.known(kf[f["site"]], "%s: %s" % (f["what"], json.dumps({k: v for k, v in f.items() if k not in ("site", "what")}, default=str)[:200]))
        else:
            new[f["site"]].append(f)
    for s in sorted(new):
        rep.violation({"site": s, "count": len(new[s]), "failures": new[s][:20],
                       "input_format": "bits:stride,lower,upper; sets in braces; value sets as region=interval"})
    rep.cov["rule"] = ("sets of 2..3 intervals (width 2..3: drawn from all intervals and from the non-wrapping aligned ones; width 4..6 random) "
                       "against sets/intervals/integers: every lifted operation must contain the member-level results; union/collapse/"
                       "normalize (max_cardinality 1..256) must contain all member values; comparisons; eval/min/max/cardinality; value "
                       "sets over 3 regions: +,-,%,&,union,intersection,widen,extract per region, queries, and union/add/sub through the "
                       "AST layer; all pairs of value sets over a 5-interval pool (sampled in the quick tier)")
    rep.cov["histogram"] = dict(stats)
    rep.cov["traces_validated_against_impl"] = sum(v for k, v in stats.items() if k.startswith("corr_")) if not mismatch else 0
    if not new and (not proof_ok or mismatch or not okd):
        rep.violation({"broken": {"obligations_not_discharged": [o for o in pr["obligations"] if not o["ok"]], "forbidden": forb,
                                  "model_mismatch": mismatch, "driver": None if okd else dlog[-800:],
                                  "coq_log_tail": pr.get("log", "")[-1200:]},
                       "note": "theorem or correspondence no longer checks; the search over the real code found no failing input"},
                      found_input=False)
    elif new and mismatch:
        print("note: model/implementation mismatch as well: %s" % json.dumps(mismatch, default=str)[:400])
    rep.cov["trusted_base"] = KERNEL_TB + [
        "Print Assumptions of Props/C23.v theorems: Closed under the global context",
        "extraction (ExtrOcamlBasic only) of dsis_add/dsis_sub/dsis_neg/dsis_not/vs_add/vs_sub/vunion_trace; ocaml/sidriver.ml",
        "Model/Lift.v is hand-written; the interval join, cardinality and the transfer functions other than add/sub/neg are "
        "parameters of the theorems (their soundness is C21/C22's subject); comparisons, intersection, widen, extract, concat of "
        "sets/value sets are covered by the search only",
    ]
    rep.assumptions = ["member-level operations are judged by C21/C22; here a lifted result must contain the member-level results"]
    return rep.finish("proof")
