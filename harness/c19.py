"""C19 -- GC guard.  Proof: Props/C19.v over Gen/GcGuard.v (translator tie).  Correspondence:
real threads driven through the real _enter_z3/_exit_z3/condom by a deterministic line-level
scheduler, state trace compared with the extracted model; direct property monitor on the real state."""
from __future__ import annotations

import json
import os
import random
import sys
import threading

from common import (KERNEL_TB, REPO, Driver, Report, build_driver, check_props, coq_make, regen_all,
                    scan_forbidden)


class BodyRaise(Exception):
    pass


class FakeGC:
    def __init__(self, on):
        self.on = on

    def isenabled(self):
        return self.on

    def enable(self):
        self.on = True

    def disable(self):
        self.on = False

    def __getattr__(self, name):  # anything else the module might call
        import gc as real
        return getattr(real, name)


class RealRun:
    """Drives n real threads through the real guard, one source line at a time."""

    def __init__(self, n, gc0):
        import claripy.backends.backend_z3 as bz
        self.bz = bz
        self.n = n
        self.gc0 = gc0
        self.saved = (bz.gc, bz._gc_lock, bz._active_z3_calls, bz._gc_was_enabled)
        self.fgc = FakeGC(gc0)
        bz.gc = self.fgc
        self.owner = None
        outer = self

        class SchedLock:
            def __enter__(self_l):
                i = outer.tid()
                while outer.owner is not None:
                    outer.pause(i, ("blocked",))
                outer.owner = i
                return self_l

            def __exit__(self_l, *a):
                outer.owner = None
                return False

            def acquire(self_l, *a, **k):
                self_l.__enter__()
                return True

            def release(self_l):
                outer.owner = None

        bz._gc_lock = SchedLock()
        bz._active_z3_calls = 0
        bz._gc_was_enabled = False
        self.codes = {bz._enter_z3.__code__: "enter", bz._exit_z3.__code__: "exit"}
        self.status = [None] * n
        self.cmd = [None] * n
        self.go = [threading.Event() for _ in range(n)]
        self.back = threading.Event()
        self.inbody = [0] * n
        self.idents = {}
        self.dead = False
        self.errors = []
        self.wrapped = bz.condom(self.body)
        self.threads = [threading.Thread(target=self.worker, args=(i,), daemon=True) for i in range(n)]
        for i, t in enumerate(self.threads):
            t.start()
            self.wait_back()

    def tid(self):
        return self.idents[threading.get_ident()]

    def wait_back(self):
        if not self.back.wait(20):
            self.dead = True
            raise RuntimeError("real thread did not come back (hang)")
        self.back.clear()

    def pause(self, i, status):
        self.status[i] = status
        self.back.set()
        self.go[i].wait()
        self.go[i].clear()
        c = self.cmd[i]
        if c == "stop":
            raise SystemExit
        return c

    def tracer(self, frame, ev, arg):
        kind = self.codes.get(frame.f_code)
        if kind is None:
            return None
        if ev in ("line", "return"):
            self.pause(self.tid(), ("ev", kind, ev, frame.f_lineno))
        return self.tracer

    def body(self, i):
        self.inbody[i] += 1
        try:
            while True:
                c = self.pause(i, ("body",))
                if c == "call":
                    try:
                        self.wrapped(i)
                    except BodyRaise:
                        pass
                elif c == "finish":
                    return
                elif c == "raise":
                    raise BodyRaise
        finally:
            self.inbody[i] -= 1

    def worker(self, i):
        self.idents[threading.get_ident()] = i
        sys.settrace(self.tracer)
        try:
            while True:
                c = self.pause(i, ("idle",))
                if c == "call":
                    try:
                        self.wrapped(i)
                    except BodyRaise:
                        pass
        except SystemExit:
            pass
        except BaseException as ex:  # noqa
            self.errors.append(repr(ex))
            self.status[i] = ("crashed", repr(ex))
            self.back.set()
        finally:
            sys.settrace(None)

    def valid(self, i):
        st = self.status[i]
        if st[0] == "idle":
            return ["call"]
        if st[0] == "body":
            return ["call", "finish", "raise"]
        if st[0] in ("ev", "blocked"):
            return ["step"]
        return []

    def do(self, i, c):
        if c not in self.valid(i):
            return False
        self.cmd[i] = c
        self.go[i].set()
        self.wait_back()
        return True

    def snapshot(self):
        bz = self.bz
        return {"lock": self.owner, "calls": bz._active_z3_calls, "was": bool(bz._gc_was_enabled),
                "gc": bool(self.fgc.on), "status": [list(s) if s else None for s in self.status],
                "inbody": list(self.inbody)}

    def monitor(self):
        """The property itself, on the real state."""
        bz = self.bz
        bad = []
        if bz._active_z3_calls < 0:
            bad.append("counter negative")
        if sum(self.inbody) > 0 and self.fgc.on:
            bad.append("GC enabled while a wrapped call is in progress")
        if all(s and s[0] == "idle" for s in self.status) and self.fgc.on != self.gc0:
            bad.append("all calls returned but GC state %s != initial %s" % (self.fgc.on, self.gc0))
        return bad

    def close(self):
        for i in range(self.n):
            self.cmd[i] = "stop"
            self.go[i].set()
        for t in self.threads:
            t.join(2)
        bz = self.bz
        bz.gc, bz._gc_lock, bz._active_z3_calls, bz._gc_was_enabled = self.saved


def random_schedule_run(rng, n, gc0, steps, maxnest=3):
    """Generates a schedule while executing it on the real code. Returns (schedule, snapshots, bad)."""
    rr = RealRun(n, gc0)
    sched, snaps, bad = [], [], None
    try:
        for k in range(steps):
            winding_down = k > steps * 0.7
            i = rng.randrange(n)
            opts = rr.valid(i)
            if not opts:
                break
            if opts == ["call"] and winding_down:
                if all(s[0] == "idle" for s in rr.status):
                    break
                continue
            if "finish" in opts:
                if winding_down or rr.inbody[i] >= maxnest:
                    c = "finish"
                else:
                    c = rng.choice(["call", "call", "finish", "finish", "finish", "raise"])
            else:
                c = opts[0]
            rr.do(i, c)
            sched.append((i, c))
            snaps.append(rr.snapshot())
            m = rr.monitor()
            if m and bad is None:
                bad = {"step": len(sched), "what": m}
        # drain: let everything finish so that the "all returned" clause is exercised
        guard = 0
        while guard < 400 and not all(s[0] == "idle" for s in rr.status):
            guard += 1
            progressed = False
            for i in range(n):
                opts = rr.valid(i)
                if not opts or opts == ["call"]:
                    continue
                c = "finish" if "finish" in opts else "step"
                before = rr.snapshot()
                rr.do(i, c)
                sched.append((i, c))
                snaps.append(rr.snapshot())
                m = rr.monitor()
                if m and bad is None:
                    bad = {"step": len(sched), "what": m}
                if rr.snapshot() != before:
                    progressed = True
            if not progressed and guard > 50:
                break
    finally:
        rr.close()
    if rr.errors and bad is None:
        bad = {"step": len(sched), "what": ["exception in real thread: " + rr.errors[0]]}
    return sched, snaps, bad


def replay_on_real(n, gc0, sched):
    rr = RealRun(n, gc0)
    snaps, bad = [], None
    try:
        for (i, c) in sched:
            ok = rr.do(i, c)
            snaps.append(rr.snapshot() if ok else None)
            m = rr.monitor()
            if m and bad is None:
                bad = {"step": len(snaps), "what": m}
    finally:
        rr.close()
    if rr.errors and bad is None:
        bad = {"step": len(snaps), "what": ["exception in real thread: " + rr.errors[0]]}
    return snaps, bad


def compare_with_model(drv, info, n, gc0, sched, snaps):
    """Model trace vs real trace.  Returns None or a description of the first difference."""
    res = drv.ask(["run", gc0, n, [[i, c] for (i, c) in sched]])
    if res and res[0] == "error":
        return "driver error: %s" % res
    el, xl = [int(x) for x in info["enter_lines"]], [int(x) for x in info["exit_lines"]]
    for k, (r, snap) in enumerate(zip(res, snaps)):
        tag, st, good = r
        lock, calls, was, gc, modes = st
        mlock = None if lock == "-" else int(lock)
        if snap is None:
            if tag != "skip":
                return "step %d: real side refused the choice, model executed it" % k
            continue
        real_blocked = snap["status"][sched[k][0]][0] == "blocked"
        if (tag == "skip") != real_blocked and tag == "skip":
            return "step %d: model skipped (blocked/invalid) but real thread progressed: %s" % (k, snap)
        if (mlock, int(calls), was == "1", gc == "1") != (snap["lock"], snap["calls"], snap["was"], snap["gc"]):
            return "step %d (%s): shared state differs: model lock=%s calls=%s was=%s gc=%s, real %s" % (
                k, sched[k], lock, calls, was, gc, {x: snap[x] for x in ("lock", "calls", "was", "gc")})
        for t, (m, s) in enumerate(zip(modes, snap["status"])):
            if m[0] == "idle":
                ok = s[0] == "idle"
            elif m[0] == "body":
                ok = s[0] == "body" and snap["inbody"][t] == int(m[1])
            else:
                lines = el if m[0] == "enter" else xl
                pc = int(m[1])
                ln = lines[pc] if pc < len(lines) else -1
                if s[0] == "blocked":
                    ok = pc == 0 or ln == lines[0]
                elif s[0] == "ev":
                    ok = s[1] == m[0] and ((s[2] == "return" and ln == 0) or (s[2] == "line" and ln == s[3]))
                else:
                    ok = False
            if not ok:
                return "step %d (%s): thread %d: model %s, real %s" % (k, sched[k], t, m, s)
        if good != "1":
            return "step %d: model state violates the property (good=false)" % k
    return None


def main(tier, seed, replay=None):
    sys.path.insert(0, REPO)
    rep = Report("C19", tier, seed)
    rng = random.Random(seed)
    if replay:
        r = json.load(open(replay))
        if "schedule" in r:
            snaps, bad = replay_on_real(r["threads"], r["gc0"], [tuple(x) for x in r["schedule"]])
            print("replay:", "property FAILS: %s" % bad if bad else "property holds on this schedule")
            return 1 if bad else 0
        print("replay file names a broken obligation, not an input:", r.get("broken"))
        return 1

    errs = regen_all()
    gen_err = errs.get("GcGuard")
    ok_make, log = coq_make(["Proofs/GcProof.vo", "Gen/GcGuard.vo"])
    pr = check_props("C19") if ok_make else {"ok": False, "obligations": [
        {"name": "C19_gc", "closed": False, "axioms": ["<does not compile>"], "ok": False},
        {"name": "C19_no_underflow", "closed": False, "axioms": ["<does not compile>"], "ok": False}], "log": log[-3000:]}
    rep.obligations(pr, "make Proofs/GcProof.vo && coqc -R coq CV coq/Props/C19.v (Print Assumptions)")
    forb = scan_forbidden()
    proof_ok = pr["ok"] and not forb and gen_err is None

    drv = None
    info = None
    if gen_err is None:
        okd, dlog = build_driver("gcdriver", "ExtractGc", ["gcmodel"], ["Model/GcLang.vo", "Gen/GcGuard.vo"])
        if okd:
            drv = Driver("gcdriver")
            info = {k[0]: k[1:] for k in drv.ask(["info"])}

    nsched = 150 if tier == "quick" else 2500
    mismatch = None
    real_bad = None
    hist = {}
    for k in range(nsched):
        n = rng.choice([1, 2, 2, 3, 3, 4])
        gc0 = rng.random() < 0.6
        steps = rng.choice([20, 40, 80, 140])
        sched, snaps, bad = random_schedule_run(rng, n, gc0, steps)
        nontriv = any(s and sum(s["inbody"]) > 0 for s in snaps)
        rep.count((n, gc0, tuple(sched)), nontrivial=nontriv)
        for (_, c) in sched:
            hist[c] = hist.get(c, 0) + 1
        for s in snaps:
            if s and any(x and x[0] == "blocked" for x in s["status"]):
                hist["blocked"] = hist.get("blocked", 0) + 1
        if k < 3:
            rep.sample({"threads": n, "gc0": gc0, "schedule": sched[:40], "len": len(sched)})
        if bad and real_bad is None:
            real_bad = {"threads": n, "gc0": gc0, "schedule": sched[:bad["step"]], "what": bad["what"]}
            break
        if drv is not None and mismatch is None:
            d = compare_with_model(drv, info, n, gc0, sched, snaps)
            if d:
                mismatch = {"threads": n, "gc0": gc0, "schedule": sched, "difference": d}
                break
    rep.cov["rule"] = ("random line-level schedules of 1-4 real threads through the real _enter_z3/_exit_z3/condom "
                       "(nesting <= 3, body may raise), generated while executing; distinct = distinct (threads, gc0, schedule); "
                       "non-trivial = some wrapped call was in progress at some step")
    rep.cov["choice_histogram"] = hist
    rep.cov["traces_validated_against_impl"] = rep.cov["evaluations"] if drv is not None and not mismatch else 0

    explore = None
    if drv is not None:
        bounds = [(1, 2, 3), (0, 2, 3), (1, 3, 2), (0, 3, 2)] if tier == "quick" else \
                 [(1, 2, 4), (0, 2, 4), (1, 3, 3), (0, 3, 3), (1, 4, 2), (0, 4, 2)]
        explore = []
        for gc0, n, nest in bounds:
            r = drv.ask(["explore", gc0, n, nest, 3000000])
            explore.append({"gc0": gc0, "threads": n, "nesting": nest, "result": r[0],
                            "states": int(r[1]) if r[0] == "ok" else None,
                            "transitions": int(r[2]) if r[0] == "ok" else None,
                            "schedule": r[1] if r[0] == "bad" else None})
        rep.cov["model_exploration"] = [{k: v for k, v in e.items() if k != "schedule"} for e in explore]
        rep.cov["states"] = sum(e["states"] or 0 for e in explore)
        rep.cov["transitions"] = sum(e["transitions"] or 0 for e in explore)

    # ---------------- verdict ----------------
    if real_bad:
        rep.violation(real_bad)
    elif not proof_ok or mismatch:
        broken = {"translator_error": gen_err, "forbidden_tokens": forb,
                  "obligations_not_discharged": [o for o in pr["obligations"] if not o["ok"]],
                  "coq_log_tail": pr.get("log", "")[-1500:], "correspondence_mismatch": mismatch}
        found = None
        # (1) a bad state of the regenerated model, replayed on the real code
        for e in (explore or []):
            if e["result"] == "bad":
                sched = [(int(i), c) for i, c in e["schedule"]]
                snaps, bad = replay_on_real(e["threads"], bool(e["gc0"]), sched)
                if bad:
                    found = {"threads": e["threads"], "gc0": bool(e["gc0"]), "schedule": sched[:bad["step"]],
                             "what": bad["what"], "found_by": "model exploration, replayed on the real code"}
                    break
        # (2) more random schedules on the real code with the property monitor
        if not found:
            for k in range(1500 if tier == "quick" else 10000):
                n = rng.choice([2, 3, 3, 4])
                gc0 = rng.random() < 0.6
                sched, snaps, bad = random_schedule_run(rng, n, gc0, rng.choice([30, 60, 120]))
                if bad:
                    found = {"threads": n, "gc0": gc0, "schedule": sched[:bad["step"]], "what": bad["what"],
                             "found_by": "random schedules on the real code"}
                    break
        if found:
            found["broken"] = broken
            rep.violation(found)
        else:
            rep.violation({"broken": broken, "note": "theorem C19_gc / translator / correspondence no longer checks; "
                           "no failing schedule found within the search bounds"}, found_input=False)
    if drv:
        drv.close()
    rep.cov["trusted_base"] = KERNEL_TB + [
        "Print Assumptions C19_gc, C19_no_underflow: Closed under the global context (no axioms)",
        "translator tools/gen_gcguard.py (Python ast -> instruction list; one instruction per source line); "
        "validated on every run by the line-level trace comparison with the real functions",
        "extraction: ExtrOcamlBasic only, no Extract Constant; ocaml/gcdriver.ml + sexp.ml glue",
        "modelled not verified: CPython line-granular atomicity (the theorem covers the finer instruction granularity), "
        "threading.Lock semantics (mutual exclusion, no reentrancy), gc.enable/disable/isenabled as a boolean flag, "
        "no other writer of the two globals or of the collector flag (translator checks the module for such writers)",
    ]
    rep.assumptions = ["nobody outside the guard toggles the collector while calls are in progress",
                       "well-nested use through condom (try/finally skeleton checked by the translator)"]
    return rep.finish("proof")
