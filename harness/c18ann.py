"""annotation class importable by the child process of the C18 cross-process round trip"""
import os

import claripy


class Tag(claripy.Annotation):
    def __init__(self, n, elim=True, reloc=False):
        self.n, self._e, self._r = n, elim, reloc

    @property
    def eliminatable(self):
        return self._e

    @property
    def relocatable(self):
        return self._r

    def __hash__(self):
        return hash((self.n, self._e, self._r))

    def __eq__(self, o):
        return type(o) is Tag and (o.n, o._e, o._r) == (self.n, self._e, self._r)

    def __repr__(self):
        return "Tag(%r,%r,%r)" % (self.n, self._e, self._r)


def describe(e):
    """structure of an expression including annotations, independent of object identity and hash seeds"""
    if not isinstance(e, claripy.ast.Base):
        return repr(e)
    return [e.op, [describe(a) for a in e.args], getattr(e, "length", None), sorted(e.variables), bool(e.symbolic),
            [repr(a) for a in e.annotations]]


def battery(s, names):
    """deterministic answers of a solver about variables x, y (4 bits), z (3 bits)"""
    x = claripy.BVS(names[0], 4, explicit_name=True)
    y = claripy.BVS(names[1], 4, explicit_name=True)
    z = claripy.BVS(names[2], 3, explicit_name=True)
    out = []
    for what, f in (("sat", lambda: s.satisfiable()), ("evalx", lambda: sorted(s.eval(x, 40))), ("evaly", lambda: sorted(s.eval(y, 40))),
                    ("evalxy", lambda: sorted(s.eval(x + y, 40))), ("minz", lambda: s.min(z)), ("maxx", lambda: s.max(x, signed=True)),
                    ("sol", lambda: s.solution(x, 3)), ("cons", lambda: len(s.constraints) >= 0)):
        try:
            out.append([what, f()])
        except Exception as ex:  # noqa
            import traceback
            fr = traceback.extract_tb(ex.__traceback__)[-1]
            out.append([what, "exc:%s@%s:%s" % (type(ex).__name__, os.path.basename(fr.filename), fr.name)])
    return out


if __name__ == "__main__":
    import json
    import pickle
    import sys
    kind, path = sys.argv[1], sys.argv[2]
    obj = pickle.load(open(path, "rb"))
    if kind == "expr":
        print(json.dumps([describe(e) for e in obj]))
    else:
        solver, names = obj
        print(json.dumps(battery(solver, names)))
