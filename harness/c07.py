"""C07: annotations survive rewriting as the annotation contract promises.

Proof: Props/C07.v over Model/Annot.v (the annotation sets Base.__new__ maintains; operations._handle_annotations).
Tie: the real _handle_annotations is wrapped at run time (no source hook); every call made while building annotated
programs is replayed on the extracted model and the result sets are compared; the cached sets of every built node are
compared with a recomputation from the tree.
Search: annotated operation programs and neutral-element / fold templates: no non-eliminatable non-relocatable annotation
inside an argument may disappear from the result, every relocatable annotation of an argument must be on the result;
claripy.simplify keeps the top annotations and the relocatable ones of the direct arguments; a solver never rewrites a
constraint carrying SimplificationAvoidanceAnnotation.
"""
from __future__ import annotations

import collections
import json
import random
import sys

from common import KERNEL_TB, REPO, Driver, Report, build_driver, check_props, coq_make, known_findings, regen_all, scan_forbidden
from c01 import BV_DRIVER, TEMPLATE_RULES, template_program

PROP = "C07"
KINDS = {"E": (True, False), "P": (False, False), "R": (False, True)}


def main(tier, seed, replay=None):
    sys.path.insert(0, REPO)
    import astio
    import claripy
    import claripy.operations as operations
    rep = Report(PROP, tier, seed)
    rng = random.Random(seed)
    if replay:
        r = json.load(open(replay))
        print("replay file records:", json.dumps(r, default=str)[:1500])
        return 1

    class A(claripy.Annotation):
        def __init__(self, n, kind):
            self.n, self.kind = n, kind

        @property
        def eliminatable(self):
            return KINDS[self.kind][0]

        @property
        def relocatable(self):
            return KINDS[self.kind][1]

        def __hash__(self):
            return hash((self.n, self.kind))

        def __eq__(self, o):
            return isinstance(o, A) and (o.n, o.kind) == (self.n, self.kind)

        def __repr__(self):
            return "%s%d" % (self.kind, self.n)

    regen_all()
    ok_make, log = coq_make(["Proofs/AnnotSound.vo"])
    pr = check_props(PROP) if ok_make else {"ok": False, "obligations": [
        {"name": "C07_*", "closed": False, "axioms": ["<does not compile>"], "ok": False}], "log": log[-3000:]}
    rep.obligations(pr, "make Proofs/AnnotSound.vo && coqc -R coq CV coq/Props/C07.v (Print Assumptions)")
    forb = scan_forbidden()
    proof_ok = pr["ok"] and not forb
    okd, dlog = build_driver(*BV_DRIVER)
    stats = collections.Counter()
    kf = {f["site"]: f for f in known_findings(PROP)}
    fail = mismatch = None
    drv = Driver("bvdriver") if okd else None

    def ours(anns):
        return all(isinstance(a, A) for a in anns)

    def aset(anns):
        return sorted((a.n, a.kind) for a in anns)

    def abstract(e):
        kids = [c for c in e.args if isinstance(c, claripy.ast.Base)]
        ku = set()
        for k in kids:
            ku |= set(k._uneliminatable_annotations)
        if not (ours(e.annotations) and ours(ku) and ours(e._relocatable_annotations)):
            return None
        return [[[a.n, a.kind] for a in e.annotations], [[a.n, a.kind] for a in ku], [[a.n, a.kind] for a in e._relocatable_annotations]]

    def pinned_inside(e, memo):
        """non-eliminatable non-relocatable annotations on e or any sub-expression, from the tree itself"""
        h = e.hash()
        if h in memo:
            return memo[h]
        s = {a for a in e.annotations if isinstance(a, A) and a.kind == "P"}
        for c in e.args:
            if isinstance(c, claripy.ast.Base):
                s |= pinned_inside(c, memo)
        memo[h] = s
        return s

    calls = []
    orig = operations._handle_annotations

    def wrapped(simp, args):
        r = orig(simp, args)
        calls.append((simp, tuple(args), r))
        return r

    def bad(what, **kw):
        nonlocal fail
        if fail is None:
            fail = {"what": what}
            fail.update({k: (v if isinstance(v, (int, list, dict, type(None))) else str(v)) for k, v in kw.items()})

    if drv is not None:
        operations._handle_annotations = wrapped
        try:
            counter = [0]

            def fresh(kind=None):
                counter[0] += 1
                return A(counter[0], kind or rng.choice(["E", "P", "R", "R", "P"]))

            def maybe_annotate(e, p=0.3):
                if rng.random() < p:
                    e = e.annotate(*[fresh() for _ in range(rng.choice([1, 1, 2]))])
                    if rng.random() < 0.15 and e.annotations:
                        e = e.remove_annotation(rng.choice(e.annotations))
                return e

            nprog = 220 if tier == "quick" else 9000
            gen = astio.TreeGen(rng, widths=[1, 2, 4, 8, 16, 32])
            for it in range(nprog):
                if fail:
                    break
                rep.count(("prog", seed, it))
                r0 = rng.random()
                if r0 < 0.45:
                    steps = gen.program(rng.randrange(3, 12))
                elif r0 < 0.75:
                    steps = template_program(rng, rng.choice(TEMPLATE_RULES))
                else:
                    # neutral elements, absorbing elements and folds
                    w = rng.choice([1, 8, 32])
                    steps = [("leaf", "BVS", [], ["x_%d" % w], w), ("leaf", "BVS", [], ["y_%d" % w], w), ("leaf", "BoolS", [], ["p"], -1),
                             ("leaf", "BoolS", [], ["q"], -1), ("leaf", "BVV", [], [0], w), ("leaf", "BVV", [], [(1 << w) - 1], w),
                             ("leaf", "BVV", [], [1], w), ("leaf", "BVV", [], [rng.getrandbits(w)], w), ("leaf", "BoolV", [], [1], -1),
                             ("leaf", "BoolV", [], [0], -1)]
                    for _ in range(rng.randrange(2, 7)):
                        k = rng.random()
                        if k < 0.5:
                            op = rng.choice(["__add__", "__sub__", "__and__", "__or__", "__xor__", "__mul__", "__lshift__", "LShR", "__rshift__"])
                            bvi = [i for i, s in enumerate(steps) if s[4] == w]
                            steps.append(("op", op, [], [rng.choice(bvi), rng.choice(bvi)], w))
                        elif k < 0.75:
                            bi = [i for i, s in enumerate(steps) if s[4] == -1]
                            steps.append(("op", rng.choice(["And", "Or"]), [], [rng.choice(bi), rng.choice(bi)] + ([rng.choice(bi)] if rng.random() < 0.3 else []), -1))
                        elif k < 0.9:
                            bi = [i for i, s in enumerate(steps) if s[4] == -1]
                            bvi = [i for i, s in enumerate(steps) if s[4] == w]
                            steps.append(("op", "If", [], [rng.choice(bi), rng.choice(bvi), rng.choice(bvi)], w))
                        else:
                            bvi = [i for i, s in enumerate(steps) if s[4] == w]
                            steps.append(("op", rng.choice(["__eq__", "__ne__", "ULT"]), [], [rng.choice(bvi), rng.choice(bvi)], -1))
                real = []
                memo = {}
                for idx, st in enumerate(steps):
                    if st[0] == "leaf":
                        real.append(maybe_annotate(astio.make_leaf(st), 0.35))
                        continue
                    _, op, ints, refs, w = st
                    if any(real[x] is None for x in refs):
                        real.append(None)
                        continue
                    args = [real[x] for x in refs]
                    del calls[:]
                    try:
                        res = astio.apply_op(op, ints, args)
                    except claripy.errors.ClaripyError:
                        real.append(None)
                        continue
                    stats["ops"] += 1
                    # ---- the direct property ----
                    P = set()
                    for a in args:
                        P |= pinned_inside(a, memo)
                    lost = P - pinned_inside(res, memo)
                    if lost:
                        bad("a non-eliminatable, non-relocatable annotation inside an argument is gone from the result", op=op, ints=ints,
                            operands=[("%s %s" % (a, a.annotations)) for a in args], result="%s %s" % (res, res.annotations), lost=str(sorted(map(repr, lost))))
                        break
                    R = {x for a in args for x in a.annotations if isinstance(x, A) and x.kind == "R"}
                    if not R <= set(res.annotations):
                        bad("a relocatable annotation of an argument is not on the result", op=op, ints=ints,
                            operands=[("%s %s" % (a, a.annotations)) for a in args], result="%s %s" % (res, res.annotations),
                            missing=str(sorted(map(repr, R - set(res.annotations)))))
                        break
                    # cached sets of the result agree with the tree
                    if set(res._uneliminatable_annotations) != pinned_inside(res, memo):
                        bad("_uneliminatable_annotations of a built node differs from the pinned annotations in its tree", op=op,
                            result="%s %s" % (res, res.annotations), cached=str(res._uneliminatable_annotations))
                        break
                    # ---- the recorded _handle_annotations calls against the model ----
                    for simp, hargs, hres in calls:
                        hb = [a for a in hargs if isinstance(a, claripy.ast.Base)]
                        abs_s, abs_a = abstract(simp), [abstract(a) for a in hb]
                        if abs_s is None or any(x is None for x in abs_a):
                            continue
                        m = drv.ask(["annot_handle", abs_s, abs_a])
                        stats["handle_calls_compared"] += 1
                        if m[0] == "none":
                            same = hres is None
                        else:
                            # the own tuple may repeat an annotation (annotate() applied twice); the two caches are sets
                            mo, mu, mr = [sorted((int(i), k) for i, k in part) for part in m[1]]
                            same = hres is not None and mo == aset(hres.annotations) and sorted(set(mu)) == aset(set(hres._uneliminatable_annotations)) \
                                and sorted(set(mr)) == aset(set(hres._relocatable_annotations))
                        if not same and mismatch is None:
                            mismatch = {"kind": "model/implementation mismatch", "function": "_handle_annotations", "simp": abs_s, "args": abs_a,
                                        "model": m, "real": None if hres is None else [aset(hres.annotations), aset(hres._uneliminatable_annotations),
                                                                                       aset(hres._relocatable_annotations)]}
                    real.append(maybe_annotate(res, 0.25))
                # ---- explicit simplification keeps the top annotations and the relocatable ones of the direct arguments ----
                tops = [e for e in real if e is not None and e.depth > 1]
                if tops and not fail:
                    e = rng.choice(tops)
                    if not e.annotations:
                        e = e.annotate(fresh(), fresh())
                    try:
                        s = claripy.simplify(e)
                        stats["simplify"] += 1
                        want = set(e.annotations) | {x for a in e.args if isinstance(a, claripy.ast.Base) for x in a._relocatable_annotations}
                        if not want <= set(s.annotations):
                            bad("claripy.simplify dropped annotations of the expression or relocatable annotations of its arguments",
                                expression="%s %s" % (e, e.annotations), simplified="%s %s" % (s, s.annotations),
                                missing=str(sorted(map(repr, want - set(s.annotations)))))
                    except claripy.errors.ClaripyError:
                        pass
            # ---- a solver never rewrites a constraint that carries SimplificationAvoidanceAnnotation ----
            for it in range(20 if tier == "quick" else 600):
                if fail:
                    break
                x, y = claripy.BVS("sx", 8, explicit_name=True), claripy.BVS("sy", 8, explicit_name=True)
                forms = [lambda: x + 0 * y == 3, lambda: claripy.And(claripy.ULT(x, 5), claripy.ULT(x, 9)), lambda: (x ^ x) + y == y,
                         lambda: claripy.Or(x == 1, x == 1, y == 2), lambda: claripy.Not(claripy.Not(claripy.UGT(x, y))), lambda: x * 2 == 4]
                prot = rng.choice(forms)().annotate(claripy.annotation.SimplificationAvoidanceAnnotation())
                if not prot.symbolic:
                    continue
                cls = rng.choice([claripy.Solver, claripy.SolverCacheless, claripy.SolverComposite])
                s = cls()
                before = [rng.choice(forms)() for _ in range(rng.randrange(0, 3))]
                for c in before:
                    s.add(c)
                s.add(prot)
                for c in [rng.choice(forms)() for _ in range(rng.randrange(0, 3))]:
                    s.add(c)
                try:
                    s.simplify()
                    if rng.random() < 0.5:
                        s.satisfiable()
                        s.eval(x, 3)
                        s.simplify()
                except claripy.errors.ClaripyError:
                    pass
                stats["solver_protected"] += 1
                if not any(c is prot for c in s.constraints):
                    bad("the solver rewrote or dropped a constraint carrying SimplificationAvoidanceAnnotation", solver=cls.__name__,
                        protected=str(prot), constraints=[str(c) for c in s.constraints])
        finally:
            operations._handle_annotations = orig
    rep.cov["rule"] = ("annotated operation programs (random programs, the C01 rule templates, neutral/absorbing-element and fold shapes) whose leaves "
                       "and inner nodes carry eliminatable, pinned and relocatable annotations added through annotate()/remove_annotation(): after "
                       "every build, pinned annotations inside the arguments are still inside the result, relocatable ones are on it, the cached "
                       "sets agree with the tree, and every intercepted _handle_annotations call agrees with the extracted model; claripy.simplify "
                       "on annotated expressions; solvers holding a SimplificationAvoidanceAnnotation constraint through simplify()/queries")
    rep.cov["histogram"] = dict(stats)
    rep.cov["traces_validated_against_impl"] = stats["handle_calls_compared"] if not mismatch else 0
    if fail:
        rep.violation(fail)
    elif not proof_ok or mismatch or drv is None:
        rep.violation({"broken": {"obligations_not_discharged": [o for o in pr["obligations"] if not o["ok"]], "forbidden": forb,
                                  "model_mismatch": mismatch, "driver": None if okd else dlog[-800:],
                                  "coq_log_tail": pr.get("log", "")[-1200:]},
                       "note": "theorem or correspondence no longer checks; no lost annotation was found"}, found_input=False)
    if drv:
        drv.close()
    rep.cov["trusted_base"] = KERNEL_TB + [
        "Print Assumptions of Props/C07.v theorems: Closed under the global context",
        "Model/Annot.v is hand-written; it is tied to operations._handle_annotations by replaying intercepted calls (run-time wrapper, no "
        "source hook) and to Base.__new__ by recomputing the cached sets from the tree",
        "NOT modelled: which rewrites the simplifiers propose, user-defined relocate(), explicit simplification through Z3, the solver's "
        "constraint simplification (tests only)",
    ]
    rep.assumptions = ["annotations use the default relocate() (a relocatable annotation relocates as itself)"]
    return rep.finish("proof")
