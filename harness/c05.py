"""C05 -- width, variables, concreteness, depth.  Proof: Props/C05.v.  Tie: the model's derived fields
(Ast.symbolic / depth / elen) are compared with the fields claripy stores, on every expression the C01
generators produce and on expressions obtained by substitution, annotation changes and Z3 abstraction; the
fields are also recomputed independently on the real objects (the direct property test)."""
from __future__ import annotations

import collections
import json
import random
import sys
import time

from common import KERNEL_TB, REPO, Driver, Report, build_driver, check_props, coq_make, regen_all, scan_forbidden
from c01 import BV_DRIVER, TEMPLATE_RULES, assignments, template_program

PROP = "C05"


def free_vars(a, memo):
    import claripy
    h = a.hash()
    if h in memo:
        return memo[h]
    if a.op in ("BVS", "BoolS", "FPS", "StringS"):
        r = frozenset([a.args[0]])
    else:
        r = frozenset()
        for x in a.args:
            if isinstance(x, claripy.ast.Base):
                r = r | free_vars(x, memo)
    memo[h] = r
    return r


def direct_meta(a, memo):
    """The property on one real expression and all its sub-expressions; -> None or a description."""
    import claripy
    stack, seen = [a], set()
    while stack:
        e = stack.pop()
        if e.hash() in seen:
            continue
        seen.add(e.hash())
        kids = [x for x in e.args if isinstance(x, claripy.ast.Base)]
        fv = free_vars(e, memo)
        if not fv <= e.variables:
            return {"what": "variables misses an occurring variable", "expr": str(e), "missing": sorted(fv - e.variables)}
        if not e.symbolic and fv:
            return {"what": "reported concrete but has variables", "expr": str(e), "vars": sorted(fv)}
        exp_depth = 1 + max([k.depth for k in kids], default=0)
        if e.depth != exp_depth:
            return {"what": "depth is not 1 + deepest sub-expression", "expr": str(e), "depth": e.depth, "expected": exp_depth}
        stack.extend(kids)
    return None


def main(tier, seed, replay=None):
    sys.path.insert(0, REPO)
    import astio
    import claripy
    import progs
    rep = Report(PROP, tier, seed)
    rng = random.Random(seed)
    if replay:
        r = json.load(open(replay))
        print("replay file records:", json.dumps(r, default=str)[:1200])
        return 1
    regen_all()
    ok_make, log = coq_make(["Proofs/MetaSound.vo"])
    pr = check_props("C05") if ok_make else {"ok": False, "obligations": [
        {"name": "C05_width", "closed": False, "axioms": ["<does not compile>"], "ok": False}], "log": log[-3000:]}
    rep.obligations(pr, "make Proofs/MetaSound.vo && coqc -R coq CV coq/Props/C05.v (Print Assumptions)")
    forb = scan_forbidden()
    proof_ok = pr["ok"] and not forb
    okd, dlog = build_driver(*BV_DRIVER)
    drv = Driver("bvdriver") if okd else None
    stats = collections.Counter()
    fail = None       # a real violation of the property
    mismatch = None   # model-derived field differs from the stored one
    gen = astio.TreeGen(rng)
    programs = []
    for name in TEMPLATE_RULES:
        for _ in range(4 if tier == "quick" else 60):
            programs.append(template_program(rng, name))
    for _ in range(250 if tier == "quick" else 5000):
        programs.append(gen.program(rng.randrange(3, 14)))
    t_end = time.time() + (150 if tier == "quick" else 2400)
    ann = claripy.annotation.SimplificationAvoidanceAnnotation()

    class UAnn(claripy.annotation.Annotation):
        eliminatable = False
        relocatable = False

    class RAnn(claripy.annotation.Annotation):
        eliminatable = False
        relocatable = True

        def relocate(self, src, dst):
            return self
    UA, RA = UAnn(), RAnn()
    for steps in programs:
        if time.time() > t_end or fail:
            break
        names = astio.Names()
        real, sers = progs.build_real(steps, names)
        bvn, booln = progs.var_table(steps, names)
        exprs = [(r[1], s) for r, s in zip(real, sers) if r[0] == "ok"]
        # derived expressions: substitution, annotation changes, Z3 abstraction
        derived = []
        leaves = [r[1] for r, st in zip(real, steps) if st[0] == "leaf" and r[0] == "ok"]
        for (e, _) in exprs[-3:]:
            try:
                bvleaves = [l for l in leaves if l.op == "BVS" and l.args[0] in e.variables]
                if bvleaves:
                    x = rng.choice(bvleaves)
                    derived.append(("replace-const", claripy.replace(e, x, claripy.BVV(rng.getrandbits(x.length), x.length))))
                    others = [l for l in leaves if l.op == "BVS" and l.length == x.length and l is not x]
                    if others:
                        derived.append(("replace-var", claripy.replace(e, x, rng.choice(others) + 1)))
                derived.append(("annotate", e.annotate(ann)))
                # substitution inside annotated nodes (make_like's fast path copies stored fields)
                if bvleaves:
                    for a2 in (ann, UA, RA):
                        ea = e.annotate(a2)
                        x = rng.choice(bvleaves)
                        derived.append(("replace-in-annotated", claripy.replace(ea, x, claripy.BVV(1, x.length))))
                        others = [l for l in leaves if l.op == "BVS" and l.length == x.length and l is not x]
                        if others:
                            derived.append(("replace-in-annotated", claripy.replace(ea, x, rng.choice(others))))
                            if isinstance(e, claripy.ast.BV):
                                outer = (ea + 1) if rng.random() < 0.5 else claripy.Concat(ea, ea)
                                derived.append(("replace-in-annotated", claripy.replace(outer, x, rng.choice(others))))
                derived.append(("clear", e.annotate(ann).clear_annotations()))
                if tier != "quick" or rng.random() < 0.3:
                    derived.append(("z3-simplify", claripy.simplify(e)))
            except claripy.errors.ClaripyError as ex:
                stats["derived_error:" + type(ex).__name__] += 1
        memo = {}
        for kind, e in [("built", x[0]) for x in exprs] + derived:
            stats["checked:" + kind] += 1
            rep.count((kind, e.hash()), nontrivial=e.depth > 1)
            d = direct_meta(e, memo)
            if d and not fail:
                fail = dict(d, kind=kind, program=[list(s) for s in steps])
            # width and concrete value against the SMT-LIB evaluator; model-derived fields against stored ones
            if drv is None:
                continue
            try:
                s = astio.ser(e, names)
            except astio.Unser:
                stats["unserialisable"] += 1
                continue
            m = drv.ask(["meta", s])
            stored = ["1" if e.symbolic else "0", str(e.depth), str(e.length if isinstance(e, claripy.ast.Bits) else -1)]
            if m != stored and mismatch is None:
                mismatch = {"expr": str(e), "kind": kind, "model(symbolic,depth,len)": m, "stored": stored}
            for (bvs, bools) in list(assignments(rng, bvn, booln, limit_bits=6, nrand=2))[:4]:
                v = progs.eval_ser(drv, s, bvs, bools)
                if v is None:
                    continue
                if v[0] == "bv" and v[1] != e.length and not fail:
                    fail = {"what": "reported width differs from the width of the value", "expr": str(e), "length": e.length,
                            "value": v, "kind": kind, "program": [list(x) for x in steps]}
                if not e.symbolic:
                    cv = e.concrete_value
                    want = v[2] if v[0] == "bv" else bool(v[1])
                    if cv != want and not fail:
                        fail = {"what": "concrete_value differs from the denoted value", "expr": str(e), "concrete_value": str(cv),
                                "denotes": v, "kind": kind, "program": [list(x) for x in steps]}
                    stats["concrete_values"] += 1
        if len(rep.cov["samples"]) < 5 and derived:
            rep.sample({"expr": str(exprs[-1][0]), "variables": sorted(exprs[-1][0].variables), "depth": exprs[-1][0].depth,
                        "derived": [(k, str(d)[:80]) for k, d in derived[:3]]})
    rep.cov["rule"] = ("every expression (and sub-expression) produced by the C01 rule templates and random programs, plus results of "
                       "replace(), annotate/clear_annotations and claripy.simplify (Z3 abstraction): variables/symbolic/depth "
                       "recomputed from the leaves, width and concrete value compared with the extracted SMT-LIB evaluator, "
                       "model-derived fields compared with stored ones; distinct = distinct AST hash; non-trivial = depth > 1")
    rep.cov["histogram"] = dict(stats)
    rep.cov["traces_validated_against_impl"] = sum(v for k, v in stats.items() if k.startswith("checked:")) if not mismatch else 0
    if fail:
        rep.violation(fail)
    elif not proof_ok or mismatch or drv is None:
        rep.violation({"broken": {"obligations_not_discharged": [o for o in pr["obligations"] if not o["ok"]],
                                  "forbidden": forb, "model_vs_stored_fields": mismatch, "driver": None if okd else dlog[-800:],
                                  "coq_log_tail": pr.get("log", "")[-1200:]},
                       "note": "theorem or correspondence no longer checks; recomputation on the real objects found no failing expression"},
                      found_input=False)
    if drv:
        drv.close()
    rep.cov["trusted_base"] = KERNEL_TB + [
        "Print Assumptions of Props/C05.v theorems: Closed under the global context",
        "the model derives symbolic/depth/length/variables from the structure; claripy stores them (and sometimes copies them): "
        "the correspondence compares the two on every run; stored `variables` may be a superset (the property allows it)",
        "Z3 abstraction and replace_dict are exercised on the real code only (not modelled)",
    ]
    return rep.finish("proof")
