"""C16: unsat cores are unsatisfiable subsets of the tracked constraints.

Proof: Props/C16.v -- the core cached by the syntactic shortcut of SatCacheMixin._add is an unsatisfiable pair.
Tie: the shortcut is replayed on the construction model (And(con, added) builds to False in the model iff the real solver
caches that pair).
Search: tracked Solver and SolverComposite objects driven to unsatisfiability by random add orders (with branch, queries and
unsat_core calls with extra constraints in between): every element of unsat_core() must be a constraint that was added,
their conjunction must be unsatisfiable (enumeration), and a satisfiable solver must return an empty core.
Cores read back from Z3 after simplification, after branch(), and the composite solver's collection over children are wrong
on the pinned tree: known findings by scenario class.
"""
from __future__ import annotations

import collections
import json
import random
import sys

from common import KERNEL_TB, REPO, Driver, Report, build_driver, check_props, coq_make, known_findings, regen_all, scan_forbidden
from c01 import BV_DRIVER

PROP = "C16"


def tracking_correspondence(claripy, solverhist, drv, rng, stats, n):
    """the extracted tracking model against BackendZ3._add(track=True) / _unsat_core on a raw tracked Z3 solver:
    same sequence of assertion names, and the core is what core_of selects for the names Z3 reports.  -> None | mismatch"""
    b = claripy.backends.z3
    for it in range(n):
        u = solverhist.Universe(claripy, drv, tag="uct%d_" % (it % 5))
        forms = solverhist.constraint_pool(u, rng)
        pool = [rng.choice(forms)() for _ in range(rng.randint(2, 6))]
        if rng.random() < 0.6:
            k = rng.getrandbits(4)
            pool += [u.x == k, u.x == (k + 1 + rng.getrandbits(2)) % 16]       # make an unsatisfiable set likely
        pool = [c for c in pool if c.op != "BoolV"]
        if not pool:
            continue
        batches = [[rng.choice(pool) for _ in range(rng.randint(1, 3))] for _ in range(rng.randint(1, 4))]   # repeats on purpose
        ids = {}
        s = b.solver()
        try:
            for batch in batches:
                b.add(s, batch, track=True)
        except claripy.errors.ClaripyError:
            continue
        names = {}
        for c in pool:
            ids.setdefault(c.hash(), len(ids) + 1)
            names[c.hash()] = hash(b.convert(c))
        real = [int(str(impl.children()[0])) for impl in s.assertions()]
        sat = b.check_satisfiability(solver=s)        # "SAT" / "UNSAT" / "UNKNOWN"
        core_names = []
        real_core = None
        if sat == "UNSAT":
            core_names = [int(str(x)) for x in s.unsat_core()]
            real_core = sorted(str(c) for c in b.unsat_core(s))
        out = drv.ask(["track_run", [[[ids[c.hash()], names[c.hash()]] for c in batch] for batch in batches], core_names])
        stats["corr_tracking"] += 1
        m_names = [int(x[0]) for x in out[0]]
        if m_names != real:
            return {"what": "assertion names differ", "batches": [[str(c) for c in batch] for batch in batches], "model": m_names, "real": real}
        if real_core is not None:
            by_id = {v: k for k, v in ids.items()}
            byhash = {c.hash(): c for c in pool}
            m_core = sorted(str(byhash[by_id[int(i)]]) for i in out[1])
            stats["corr_tracking_core"] += 1
            if m_core != real_core:
                return {"what": "unsat core differs from what the reported names select", "batches": [[str(c) for c in batch] for batch in batches],
                        "model": m_core, "real": real_core}
    return None


def main(tier, seed, replay=None):
    sys.path.insert(0, REPO)
    import astio
    import claripy
    import solverhist
    rep = Report(PROP, tier, seed)
    rng = random.Random(seed)
    if replay:
        r = json.load(open(replay))
        print("replay file records:", json.dumps(r, default=str)[:1500])
        return 1
    regen_all()
    ok_make, log = coq_make(["Proofs/FrontendSound.vo", "Proofs/TrackSound.vo"])
    pr = check_props(PROP) if ok_make else {"ok": False, "obligations": [
        {"name": "C16_*", "closed": False, "axioms": ["<does not compile>"], "ok": False}], "log": log[-3000:]}
    rep.obligations(pr, "make Proofs/FrontendSound.vo && coqc -R coq CV coq/Props/C16.v (Print Assumptions)")
    forb = scan_forbidden()
    proof_ok = pr["ok"] and not forb
    okd, dlog = build_driver(*BV_DRIVER)
    stats = collections.Counter()
    kf = {f["site"]: f for f in known_findings(PROP)}
    fail = mismatch = None
    drv = Driver("bvdriver") if okd else None
    if drv is not None:
        try:
            mismatch = tracking_correspondence(claripy, solverhist, drv, random.Random(seed + 11), stats, 150 if tier == "quick" else 2500)
        except Exception as ex:  # noqa
            mismatch = {"exception": repr(ex)}
        iters = 500 if tier == "quick" else 12000
        for it in range(iters):
            if fail:
                break
            u = solverhist.Universe(claripy, drv, tag="uc%d_" % (it % 5))
            forms = solverhist.constraint_pool(u, rng)
            cname = rng.choice(["Solver", "Solver", "SolverComposite"])
            s = getattr(claripy, cname)(track=True)
            added, hist = [], []
            flags = set()
            rep.count(("core", seed, it))
            for _ in range(rng.randrange(1, 8)):
                r = rng.random()
                try:
                    if r < 0.66:
                        c = rng.choice(forms)()
                        before = getattr(s, "_cached_unsat_core", None)
                        n_before = len(getattr(s, "constraints", []))
                        s.add(c)
                        added.append(c)
                        hist.append("add(%s)" % c)
                        # ---- the shortcut against the model ----
                        if cname == "Solver" and before is None and not flags:
                            after = getattr(s, "_cached_unsat_core", None)
                            if len(s.constraints) == n_before + 1 and len(s.constraints) < 5:
                                want = None
                                try:
                                    for con in s.constraints:
                                        m = drv.ask(["mk", "And", [], [astio.ser(con, u.names), astio.ser(c, u.names)]])
                                        if m[0] == "ok" and astio.norm(m[1]) == ["BoolV", 0]:
                                            want = (con.hash(), c.hash())
                                            break
                                        if m[0] != "ok":
                                            want = "unmodelled"
                                            break
                                except astio.Unser:
                                    want = "unmodelled"
                                if want != "unmodelled":
                                    stats["shortcut_compared"] += 1
                                    got = None if after is None else tuple(x.hash() if isinstance(x, claripy.ast.Base) else repr(x) for x in after)
                                    if got != want and mismatch is None:
                                        mismatch = {"kind": "model/implementation mismatch", "function": "SatCacheMixin._add shortcut", "history": hist,
                                                    "model": str(want), "real": str(after)}
                    elif r < 0.74 and cname == "Solver":
                        s = s.branch()
                        hist.append("branch()")
                        flags.add("after_branch")
                    elif r < 0.82:
                        s.satisfiable()
                        hist.append("satisfiable()")
                    elif r < 0.92:
                        hist.append("eval(x, 2)")
                        flags.add("after_simplify")
                        s.eval(u.x, 2)
                    else:
                        ex = [rng.choice(forms)()]
                        hist.append("unsat_core(extra=%s)" % ex)
                        s.unsat_core(extra_constraints=ex)
                except claripy.errors.UnsatError:
                    pass
            if cname == "SolverComposite":
                flags = {"composite"}
            try:
                core = list(s.unsat_core())
            except claripy.errors.ClaripyError as ex:
                core = None
                what = "unsat_core() raised %s" % type(ex).__name__
            sat = bool(u.models(added))
            stats["%s_%s" % (cname, "sat" if sat else "unsat")] += 1
            if core is not None:
                hs = {c.hash() for c in added}
                what = None
                if sat and core:
                    what = "a satisfiable solver returned a non-empty core"
                elif not sat:
                    if not core:
                        what = "an unsatisfiable solver returned an empty core"
                    elif any(not isinstance(c, claripy.ast.Base) for c in core):
                        what = "the core contains something that is not a constraint"
                    elif any(c.hash() not in hs for c in core):
                        what = "the core contains a constraint that was never added"
                    elif u.models(core):
                        what = "the conjunction of the core is satisfiable"
            if what:
                site = next((f for f in ("composite", "after_branch", "after_simplify") if f in flags and f in kf), None)
                if site:
                    rep.known(kf[site], what + " -- " + kf[site]["text"][:140])
                else:
                    fail = {"what": what, "solver": cname, "history": hist, "core": None if core is None else [str(c) for c in core],
                            "added": [str(c) for c in added]}
    rep.cov["rule"] = ("Solver(track=True) and SolverComposite(track=True): 1-7 steps of add (34 constraint forms over x,y:BV4 z:BV3 b:Bool), branch, "
                       "satisfiable, eval, unsat_core(extra_constraints=...), then unsat_core(): members are added constraints, the conjunction has no "
                       "model among the 4096 assignments, empty iff satisfiable; the pair cached by the add-shortcut against the construction model. "
                       "Scenario classes with known findings: after a query that simplifies (eval), after branch(), SolverComposite")
    rep.cov["histogram"] = dict(stats)
    rep.cov["traces_validated_against_impl"] = stats["shortcut_compared"] if not mismatch else 0
    if fail:
        rep.violation(fail)
    elif not proof_ok or mismatch or drv is None:
        rep.violation({"broken": {"obligations_not_discharged": [o for o in pr["obligations"] if not o["ok"]], "forbidden": forb,
                                  "model_mismatch": mismatch, "driver": None if okd else dlog[-800:],
                                  "coq_log_tail": pr.get("log", "")[-1200:]},
                       "note": "theorem or correspondence no longer checks; no wrong core was found outside the known classes"}, found_input=False)
    if drv:
        drv.close()
    rep.cov["trusted_base"] = KERNEL_TB + [
        "Print Assumptions of Props/C16.v theorems: Closed under the global context",
        "proved: only the core of the syntactic add-shortcut. Cores obtained from Z3 (assert_and_track names, clone/translate, "
        "CompositeFrontend.unsat_core) are NOT modelled and are tested against enumeration",
    ]
    rep.assumptions = ["Z3's unsat core is an unsatisfiable subset of the tracked assertions"]
    return rep.finish("proof")
