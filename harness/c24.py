"""C24: the VSA backend's value of an expression over annotated variables contains every value the expression takes.

  1. theorems: Props/C24.v -- abstract evaluation with sound transfer functions over-approximates, for every expression
     (C24_aeval), also after ITE excavation (C24_convert), and for the table-driven executable instance (C24_table);
  2. correspondence: for every generated expression the real BackendVSA.convert is run with its operator applications
     recorded (run-time wrapper around BackendVSA._call, no source hook); the extracted model replays the conversion
     (excavation by the construction model, bottom-up evaluation, the If rule) looking operator results up in the recorded
     table; its result must be the real result -- any operator application the model does not expect, or a different way of
     combining them, is a mismatch;
  3. search: all assignments within the variables' intervals are enumerated with the extracted SMT-LIB evaluator; the
     abstract value must contain every concrete value.  When it does not, the sub-expression whose value is unsound while
     all its children's are sound is located: if its value is exactly what the interval transfer function yields on those
     operands, the failure belongs to that transfer function (C21); otherwise the composition is at fault.
  SolverVSA's eval/min/max/solution/satisfiable/is_true/is_false are checked against the same enumeration.
"""
from __future__ import annotations

import collections
import itertools
import json
import logging
import operator
import random
import sys

from common import KERNEL_TB, REPO, Driver, Report, build_driver, check_props, coq_make, known_findings, regen_all, scan_forbidden
from c01 import BV_DRIVER
from sicheck import Dom, keystr, rand_key, SI_DRIVER

PROP = "C24"
INT_OPS = {"Extract": 2, "ZeroExt": 1, "SignExt": 1}
# claripy operator -> C21 site of the interval transfer function
SITE = {"__add__": "add", "__sub__": "sub", "__mul__": "mul", "__and__": "and", "__or__": "or", "__xor__": "xor",
        "__lshift__": "shl", "__rshift__": "ashr", "LShR": "lshr", "__neg__": "opneg", "__invert__": "not", "__mod__": "mod",
        "__floordiv__": "udiv", "SDiv": "sdiv", "Concat": "concat", "Extract": "extract", "ZeroExt": "zext", "SignExt": "sext",
        "__eq__": "eq", "__ne__": "eq", "ULT": "ULT", "ULE": "ULE", "UGT": "UGT", "UGE": "UGE", "SLT": "SLT", "SLE": "SLE",
        "SGT": "SGT", "SGE": "SGE"}


class Unser(Exception):
    pass


def ser(a, names, memo, plain=None):
    """claripy AST -> S-expression of Model/Ast.expr; interval annotations on variables are dropped (the model gets them
    as a table), annotations anywhere else are not supported"""
    import claripy
    h = a.hash()
    if h in memo:
        return memo[h]
    op = a.op
    if op == "BVS":
        if plain is not None and not a.annotations:
            # an occurrence that lost its annotation (the simplifier returned the bare variable): TOP for the abstract replay
            r = ["BVS", names.id(a.args[0] + "/plain"), a.length]
            plain[names.id(a.args[0] + "/plain")] = a.length
        else:
            r = ["BVS", names.id(a.args[0]), a.length]
    elif op == "BVV":
        if a.args[0] is None or a.annotations:
            raise Unser("ESI")
        r = ["BVV", a.args[0], a.length]
    elif op == "BoolV":
        if a.annotations:
            raise Unser("annotated")
        r = ["BoolV", 1 if a.args[0] else 0]
    elif op == "BoolS":
        raise Unser("BoolS")
    else:
        if a.annotations:
            raise Unser("annotated node")
        k = INT_OPS.get(op, 0)
        ints = list(a.args[:k])
        args = [ser(x, names, memo, plain) for x in a.args[k:]]
        ln = a.length if isinstance(a, claripy.ast.Bits) else -1
        r = ["N", op, ints, args, ln]
    memo[h] = r
    return r


class Env:
    def __init__(self):
        sys.path.insert(0, REPO)
        logging.disable(logging.CRITICAL)
        sys.setrecursionlimit(600)
        import astio
        import claripy
        from claripy.backends.backend_vsa import BoolResult, StridedInterval
        self.astio, self.c, self.SI, self.BR = astio, claripy, StridedInterval, BoolResult
        self.vsa = claripy.backends.vsa


E = None


def aval(o):
    """abstract object -> S-expression of AbsInt.aval, None if it is neither an interval nor a truth-value set"""
    if type(o) is E.SI:
        if o._reversed:
            return None
        if o.is_empty:
            return ["si", o.bits, 1, 0, 0, 1]
        return ["si", o.bits, o.stride, o.lower_bound, o.upper_bound, 0]
    if isinstance(o, E.BR):
        v = set(o.value)
        return ["bool", 1 if True in v else 0, 1 if False in v else 0]
    return None


def aval_members(a):
    if a[0] == "bool":
        return {t for t, f in ((True, a[1]), (False, a[2])) if f}
    if a[5]:
        return set()
    d = Dom((a[1], a[2], a[3], a[4]))
    return set(d.sample(1 << 20))


def aval_str(a):
    if a is None:
        return "?"
    if a[0] == "bool":
        return "{%s}" % ",".join(n for n, f in (("T", a[1]), ("F", a[2])) if f)
    return "%d:bot" % a[1] if a[5] else keystr((a[1], a[2], a[3], a[4]))


class Recorder:
    """wraps BackendVSA._call on the instance (removed afterwards)"""

    def __init__(self):
        self.tab = []
        self.joins = []
        self.unsupported = None

    def __enter__(self):
        vsa = E.vsa
        orig = vsa._call
        rec = self

        def wrapped(op, args):
            r = orig(op, args)
            ints = [a for a in args if isinstance(a, int) and not isinstance(a, bool)]
            objs = [a for a in args if not (isinstance(a, int) and not isinstance(a, bool))]
            avs = [aval(o) for o in objs]
            ar = aval(r)
            if ar is None or any(a is None for a in avs):
                rec.unsupported = op
            else:
                rec.tab.append([op, ints, avs, ar])
                if op == "If" and len(avs) == 3 and avs[0][0] == "bool" and avs[0][1] and avs[0][2]:
                    rec.joins.append([avs[1], avs[2], ar])
            return r
        vsa._call = wrapped
        return self

    def __exit__(self, *a):
        try:
            del E.vsa._call
        except AttributeError:
            pass
        return False


# ----------------------------------------------------------------------------------------------
# expressions
# ----------------------------------------------------------------------------------------------

BIN = ["__add__", "__sub__", "__mul__", "__and__", "__or__", "__xor__", "__add__", "__sub__"]
SHIFT = ["__lshift__", "__rshift__", "LShR"]
CMPS = ["__eq__", "__ne__", "ULT", "ULE", "UGT", "UGE", "SLT", "SLE", "SGT", "SGE"]


def nice_key(rng, w):
    n = 1 << w
    st = rng.choice([1, 1, 2, 3]) if n > 2 else 1
    lo = rng.randrange(n)
    kmax = (n - 1 - lo) // st
    if kmax <= 0 or rng.random() < 0.15:
        return (w, 0, lo, lo)
    k = rng.randint(1, kmax)
    return (w, st, lo, lo + k * st)


class Case:
    """variables with intervals and an expression over them"""

    def __init__(self, rng, tag, general):
        c = E.c
        self.rng = rng
        nv = rng.choice([1, 2, 2, 3])
        w = rng.choice([2, 3, 3, 4]) if nv < 3 else rng.choice([2, 3])
        self.w = w
        self.names = E.astio.Names()
        self.vars, self.keys = [], []
        for i in range(nv):
            k = rand_key(rng, w) if (general and rng.random() < 0.5) else nice_key(rng, w)
            v = c.SI(name="%s_v%d" % (tag, i), bits=w, stride=k[1], lower_bound=k[2], upper_bound=k[3], explicit_name=True)
            self.vars.append(v)
            self.keys.append(k)
            self.names.id(v.args[0])

    def const(self, w):
        return E.c.BVV(self.rng.choice([0, 1, 2, 3, (1 << w) - 1, 1 << (w - 1), self.rng.randrange(1 << w)]) & ((1 << w) - 1), w)

    def bv(self, depth, w=None):
        rng, c = self.rng, E.c
        w = w or self.w
        if depth <= 0 or rng.random() < 0.2:
            if w == self.w and rng.random() < 0.75:
                return rng.choice(self.vars)
            return self.const(w)
        k = rng.random()
        if k < 0.40:
            return E.astio.apply_op(rng.choice(BIN), [], [self.bv(depth - 1, w), self.bv(depth - 1, w)])
        if k < 0.48:
            return E.astio.apply_op(rng.choice(["__neg__", "__invert__"]), [], [self.bv(depth - 1, w)])
        if k < 0.56:
            return E.astio.apply_op(rng.choice(SHIFT), [], [self.bv(depth - 1, w), c.BVV(rng.randrange(w + 1), w)])
        if k < 0.80:
            return c.If(self.boolean(depth - 1), self.bv(depth - 1, w), self.bv(depth - 1, w))
        if k < 0.86 and w > 1:
            # extension of a narrower value
            n = rng.randint(1, w - 1)
            inner = self.bv(depth - 1, w - n)
            return c.ZeroExt(n, inner) if rng.random() < 0.5 else c.SignExt(n, inner)
        if k < 0.93 and w < 6:
            hi = rng.randrange(w, w + 2)
            inner = self.bv(depth - 1, hi + 1) if hi + 1 <= 6 else self.bv(depth - 1, w)
            if inner.length > w:
                lo = rng.randint(0, inner.length - w)
                return c.Extract(lo + w - 1, lo, inner)
            return inner
        if w > 1:
            n = rng.randint(1, w - 1)
            return c.Concat(self.bv(depth - 1, n), self.bv(depth - 1, w - n))
        return self.const(w)

    def direct(self):
        """each operator whose transfer function is modelled, applied straight to the annotated variables (whose intervals need
        not be aligned or non-wrapping): these are the table entries the proved model is compared with"""
        c, rng = E.c, self.rng
        v, u = rng.choice(self.vars), rng.choice(self.vars)
        cmp_op = rng.choice(["ULT", "ULE", "UGT", "UGE", "SLT", "SLE", "SGT", "SGE"])
        return [~v, -v, c.ZeroExt(rng.randint(1, 2), v), v - u, v + u, E.astio.apply_op(cmp_op, [], [v, u])]

    def boolean(self, depth):
        rng, c = self.rng, E.c
        k = rng.random()
        if depth <= 0 or k < 0.7:
            a = self.bv(max(0, depth - 1))
            b = self.bv(max(0, depth - 1)) if rng.random() < 0.5 else self.const(self.w)
            return E.astio.apply_op(rng.choice(CMPS), [], [a, b])
        if k < 0.8:
            return c.Not(self.boolean(depth - 1))
        if k < 0.9:
            return c.And(self.boolean(depth - 1), self.boolean(depth - 1))
        return c.Or(self.boolean(depth - 1), self.boolean(depth - 1))


def subterms(e):
    """post-order, distinct"""
    seen, out = set(), []

    def go(a):
        if not isinstance(a, E.c.ast.Base) or a.hash() in seen:
            return
        seen.add(a.hash())
        for x in a.args:
            go(x)
        out.append(a)
    go(e)
    return out


def direct_transfer(op, ints, objs):
    """the interval-level operation on fresh operands, as written in the class (not through the backend's tables)"""
    a = objs
    if op in ("__add__", "__sub__", "__mul__", "__and__", "__or__", "__xor__", "__mod__", "__floordiv__"):
        r = a[0]
        for x in a[1:]:
            r = getattr(operator, op)(r, x)
        return r
    if op in ("__eq__", "__ne__", "__lshift__", "__rshift__"):
        return getattr(operator, op)(a[0], a[1])
    if op in ("__neg__", "__invert__"):
        return getattr(operator, op)(a[0])
    if op in ("ULT", "ULE", "UGT", "UGE", "SLT", "SLE", "SGT", "SGE", "LShR"):
        return getattr(a[0], op)(a[1])
    if op == "Concat":
        r = a[0]
        for x in a[1:]:
            r = r.concat(x)
        return r
    if op == "Extract":
        return a[0].extract(ints[0], ints[1])
    if op == "ZeroExt":
        return a[0].zero_extend(ints[0] + a[0].bits)
    if op == "SignExt":
        return a[0].sign_extend(ints[0] + a[0].bits)
    return None


def mk_obj(a):
    if a[0] == "bool":
        return None
    if a[5]:
        return E.SI.empty(a[1])
    return E.SI(bits=a[1], stride=a[2], lower_bound=a[3], upper_bound=a[4])


# operators whose interval transfer function is modelled and proved sound (C21_add .. C21_sge, lifted to table entries by
# C24_add_entry .. C24_cmp_entries): recorded operator -> command of the strided-interval driver
MODEL_OPS = {"__add__": "add", "__sub__": "sub", "__neg__": "neg", "__invert__": "not", "ZeroExt": "zext",
             "ULT": "ULT", "ULE": "ULE", "UGT": "UGT", "UGE": "UGE", "SLT": "SLT", "SLE": "SLE", "SGT": "SGT", "SGE": "SGE"}
TRI = {"TT": ["bool", 1, 0], "TF": ["bool", 0, 1], "TM": ["bool", 1, 1]}


class Checker:
    def __init__(self, drv, stats, sdrv=None):
        self.drv, self.stats, self.sdrv = drv, stats, sdrv
        self.fails = []          # composition failures / solver failures
        self.transfer = []       # failures located in an interval transfer function
        self.mismatch = None
        self.entry_mismatch = None

    def discharge(self, tab):
        """the recorded entries of the modelled operators must be what the proved model computes: then their soundness is a
        theorem (C24_*_entry) and not a hypothesis of this run.  Entries of other operators stay hypotheses (counted)."""
        if self.sdrv is None:
            return
        for op, ints, avs, ar in tab:
            m = MODEL_OPS.get(op)
            n_args = 1 if m in ("neg", "not", "zext") else 2
            if m is None or len(avs) != n_args or any(a[0] != "si" or a[5] for a in avs) or len({a[1] for a in avs}) != 1:
                self.stats["entries_assumed"] += 1
                continue
            sis = [[a[1], a[2], a[3], a[4], 0] for a in avs]
            if m in ("add", "sub"):
                out = self.sdrv.ask([m, sis[0], sis[1]])
            elif m in ("neg", "not"):
                out = self.sdrv.ask([m, sis[0]])
            elif m == "zext":
                out = self.sdrv.ask(["zext", sis[0], sis[0][0] + ints[0]])
            else:
                out = self.sdrv.ask(["ucmp", m, sis[0], sis[1]])
            if out[0] != "ok":
                self.stats["entries_model_undefined"] += 1
                continue
            if isinstance(out[1], str):        # a comparison: TT / TF / TM
                want = TRI[out[1]]
            else:
                r = out[1]
                want = ["si", int(r[0]), 1, 0, 0, 1] if r[4] == "1" else ["si"] + [int(x) for x in r[:4]] + [0]
            if want == ar:
                self.stats["entries_proved_by_C21"] += 1
            elif self.entry_mismatch is None:
                self.entry_mismatch = {"kind": "a recorded result of a modelled interval operation differs from the proved model",
                                       "op": op, "ints": ints, "args": [aval_str(a) for a in avs], "real": aval_str(ar), "model": aval_str(want)}

    def enum(self, case, terms):
        """-> per term: list of values over the assignments inside the intervals"""
        memo = {}
        ss = [ser(t, case.names, memo) for t in terms]
        bvvars = [(case.names.id(v.args[0]), v.length) for v in case.vars]
        out = self.drv.ask(["enum", ss, bvvars, []])
        doms = [Dom(k) for k in case.keys]
        rows = [r.strip() for r in out.split(";") if r.strip()]
        cols = [[] for _ in terms]
        idx = 0
        for vals in itertools.product(*[range(1 << v.length) for v in case.vars]):
            row = rows[idx]
            idx += 1
            if not all(d.has(x) for d, x in zip(doms, vals)):
                continue
            for j, item in enumerate(row.split()):
                cols[j].append(True if item == "T" else False if item == "F" else None if item == "N" else int(item))
        return cols, ss

    def run(self, case, e, tag):
        c, vsa = E.c, E.vsa
        self.stats["expressions"] += 1
        vsa.downsize()
        try:
            with Recorder() as rec:
                r = vsa.convert(e)
        except RecursionError:
            self.stats["recursion"] += 1
            return
        except Exception as ex:  # noqa
            if type(ex).__name__.startswith(("Claripy", "Backend")) or isinstance(ex, (NotImplementedError,)):
                self.stats["refused"] += 1
                return
            self.stats["raised_" + type(ex).__name__] += 1
            self.located_exception(case, e, ex)
            return
        self.discharge(rec.tab)
        ar = aval(r)
        if ar is None:
            self.stats["unsupported_result"] += 1
            return
        try:
            exc = c.excavate_ite(e)
            terms = subterms(exc)
            cols, ss = self.enum(case, terms + [e])
        except Unser:
            self.stats["unserialisable"] += 1
            return
        want = cols[-1]
        if any(v is None for v in want):
            self.stats["undefined_value"] += 1
            return
        got = aval_members(ar)
        missing = sorted(set(want) - got, key=str)
        self.stats["result_bool" if ar[0] == "bool" else "result_bv"] += 1
        if len(set(want)) > 1:
            self.stats["nonconstant"] += 1
        desc = {"expr": repr(e)[:300], "intervals": [keystr(k) for k in case.keys], "vsa": aval_str(ar)}
        if missing:
            self.locate(case, e, terms, cols, missing, desc)
        # correspondence with the replayed model: the evaluation of the excavated tree (bottom-up, the If rule)
        if rec.unsupported is None and self.mismatch is None:
            try:
                memo, plain = {}, {}
                sx = ser(exc, case.names, memo, plain)
                ann = [[case.names.id(v.args[0]), aval(vsa.convert(v))] for v in case.vars]
                ann += [[i, ["si", w, 1, 0, (1 << w) - 1, 0]] for i, w in plain.items()]
                out = self.drv.ask(["vsa_aeval", ann, rec.tab, rec.joins, sx])
                self.stats["corr_aeval"] += 1
                model = [out[1][0]] + [int(x) for x in out[1][1:]] if out[0] == "ok" else None
                if model != ar:
                    self.mismatch = dict(desc, excavated=repr(exc)[:300], model=out if model is None else aval_str(model), real=aval_str(ar),
                                         recorded_ops=[[t[0], t[1], [aval_str(x) for x in t[2]], aval_str(t[3])] for t in rec.tab][:30])
                # the whole conversion including the model's own excavation (the construction model knows no annotations and no
                # symbolic And/Or/Not: where it builds a different tree the comparison does not apply)
                out2 = self.drv.ask(["vsa_convert", ann, rec.tab, rec.joins, ser(e, case.names, {})])
                if out2[0] == "ok" and [out2[1][0]] + [int(x) for x in out2[1][1:]] == ar:
                    self.stats["corr_convert"] += 1
                else:
                    self.stats["model_excavation_differs_or_uncovered"] += 1
            except Unser:
                pass
        # excavation must not change the meaning (C08's theorem, checked here on the annotated tree)
        if cols[len(terms) - 1] != want:
            self.fails.append(dict(desc, site="excavate", what="the excavated expression takes other values than the original",
                                   excavated=repr(exc)[:300]))
        # the solver front end (when the abstract value itself is unsound that failure has been reported above)
        if not missing:
            self.solver(case, e, want, desc)

    def locate(self, case, e, terms, cols, missing, desc):
        """find a sub-expression of the excavated tree whose abstract value is unsound while its children's are sound"""
        vsa = E.vsa
        vals = {}
        sound = {}
        for t, col in zip(terms, cols):
            try:
                a = aval(vsa.convert(t))
            except Exception:  # noqa
                a = None
            vals[t.hash()] = a
            sound[t.hash()] = a is not None and all(v is not None for v in col) and set(col) <= aval_members(a)
        for t in terms:
            if sound[t.hash()] or vals[t.hash()] is None:
                continue
            kids = [x for x in t.args if isinstance(x, E.c.ast.Base)]
            if not all(sound.get(k.hash(), False) for k in kids):
                continue
            ints = [x for x in t.args if isinstance(x, int) and not isinstance(x, bool)]
            kav = [vals[k.hash()] for k in kids]
            culprit = {"op": t.op, "ints": ints, "args": [aval_str(x) for x in kav], "value": aval_str(vals[t.hash()])}
            if t.op in SITE and all(x is not None and x[0] == "si" for x in kav):
                try:
                    d = aval(direct_transfer(t.op, ints, [mk_obj(x) for x in kav]))
                except Exception:  # noqa
                    d = None
                if d == vals[t.hash()]:
                    self.transfer.append(dict(desc, site=SITE[t.op], culprit=culprit, missing=missing[:8]))
                    return
                culprit["interval_level_result"] = aval_str(d)
            self.fails.append(dict(desc, site="convert", what="the abstract value lacks concrete values and no interval transfer function "
                                   "accounts for it", culprit=culprit, missing=missing[:8]))
            return
        self.fails.append(dict(desc, site="convert", what="the abstract value lacks concrete values although every sub-expression of the "
                               "excavated tree is sound (excavation changed the meaning)", missing=missing[:8]))

    SI_METHOD_SITE = {"mul": "mul", "__mul__": "mul", "add": "add", "__add__": "add", "sub": "sub", "__sub__": "sub",
                      "bitwise_and": "and", "__and__": "and", "bitwise_or": "or", "__or__": "or", "bitwise_xor": "xor", "__xor__": "xor",
                      "lshift": "shl", "__lshift__": "shl", "rshift_arithmetic": "ashr", "__rshift__": "ashr", "rshift_logical": "lshr",
                      "LShR": "lshr", "udiv": "udiv", "sdiv": "sdiv", "__floordiv__": "udiv", "__mod__": "mod", "extract": "extract",
                      "zero_extend": "zext", "sign_extend": "sext", "concat": "concat", "neg": "neg", "__neg__": "opneg",
                      "bitwise_not": "not", "__invert__": "not", "__eq__": "eq", "__ne__": "eq", "ULT": "ULT", "ULE": "ULE", "UGT": "UGT",
                      "UGE": "UGE", "SLT": "SLT", "SLE": "SLE", "SGT": "SGT", "SGE": "SGE"}

    def located_exception(self, case, e, ex):
        """an exception raised inside a method of StridedInterval is that transfer function's failure (C21 records exceptions
        per operation); raised anywhere else it is the conversion's"""
        import traceback
        desc = {"expr": repr(e)[:300], "intervals": [keystr(k) for k in case.keys]}
        frames = traceback.extract_tb(ex.__traceback__)
        for fr in frames:     # outermost first: the transfer function the backend called
            if fr.filename.endswith("strided_interval.py") and fr.name in self.SI_METHOD_SITE:
                self.transfer.append(dict(desc, site=self.SI_METHOD_SITE[fr.name], missing=[],
                                          culprit={"op": fr.name, "args": ["?"], "value": "raises %s inside StridedInterval.%s" % (type(ex).__name__, fr.name)}))
                return
        last = frames[-1] if frames else None
        self.fails.append(dict(desc, site="convert", what="raises %s at %s:%s" % (
            type(ex).__name__, last.filename.split("/")[-1] if last else "?", last.name if last else "?")))

    def solver(self, case, e, want, desc):
        c = E.c
        s = c.SolverVSA()
        ws = set(want)
        self.stats["solver_queries"] += 1
        try:
            if isinstance(e, c.ast.Bool):
                got = set(s.eval(e, 3))
                if not ws <= got:
                    return self.fails.append(dict(desc, site="solver.eval", missing=sorted(ws - got)))
                if True in ws and not s.satisfiable(extra_constraints=[e]):
                    return self.fails.append(dict(desc, site="solver.satisfiable", what="unsat although an assignment satisfies it"))
                if False in ws and s.is_true(e):
                    return self.fails.append(dict(desc, site="solver.is_true", what="is_true although an assignment falsifies it"))
                if True in ws and s.is_false(e):
                    return self.fails.append(dict(desc, site="solver.is_false", what="is_false although an assignment satisfies it"))
                s2 = c.SolverVSA()
                s2.add(e)
                if True in ws and not s2.satisfiable():
                    return self.fails.append(dict(desc, site="solver.add", what="unsat after adding a satisfiable constraint"))
            else:
                n = (1 << e.length) + 1
                got = set(s.eval(e, n))
                if len(got) < n and not ws <= got:
                    # transfer-function unsoundness shows here as well; it was attributed above
                    if not self.transfer or self.transfer[-1].get("expr") != desc["expr"]:
                        if not any(f.get("expr") == desc["expr"] for f in self.fails):
                            self.fails.append(dict(desc, site="solver.eval", missing=sorted(ws - got)[:8]))
                    return
                if ws <= got:
                    lo, hi = s.min(e), s.max(e)
                    if lo > min(ws) or hi < max(ws):
                        # min/max of the interval object itself is C22's subject; only a disagreement with eval is reported
                        if lo > min(got) or hi < max(got):
                            self.stats["minmax_vs_eval_disagree"] += 1
                    for v in list(ws)[:4]:
                        if not s.solution(e, v):
                            # the abstract value contains v (checked above): the interval-level intersection query is at fault
                            return self.transfer.append(dict(desc, site="intersection", missing=[v],
                                                             culprit={"op": "solution", "args": [desc["vsa"], v], "value": False}))
        except RecursionError:
            return
        except Exception as ex:  # noqa
            if not type(ex).__name__.startswith(("Claripy", "Backend")):
                self.fails.append(dict(desc, site="solver", what="raises %s" % type(ex).__name__))


def shaped(case, rng):
    """shapes around ITE excavation and Boolean combination"""
    c = E.c
    w = case.w
    x = case.vars[0]
    y = case.vars[-1]
    k1, k2 = rng.randrange(1 << w), rng.randrange(1 << w)
    cmp1 = E.astio.apply_op(rng.choice(CMPS), [], [x, c.BVV(k1, w)])
    cmp2 = E.astio.apply_op(rng.choice(CMPS), [], [y, c.BVV(k2, w)])
    leaf = lambda: rng.choice([x, y, case.const(w)])  # noqa
    i1 = c.If(cmp1, leaf(), leaf())
    i2 = c.If(rng.choice([cmp1, cmp2, c.Not(cmp1)]), leaf(), leaf())
    op = rng.choice(["__add__", "__sub__", "__xor__", "__and__", "__or__"])
    out = [E.astio.apply_op(op, [], [i1, i2]),
           E.astio.apply_op(rng.choice(CMPS), [], [i1, i2]),
           E.astio.apply_op(rng.choice(CMPS), [], [x, y]),
           c.If(E.astio.apply_op(rng.choice(["__eq__", "__ne__"]), [], [x, y]), leaf(), leaf()),
           c.And(cmp1, c.Not(cmp2)), c.Or(cmp1, E.astio.apply_op("__ne__", [], [x, y])),
           c.If(c.And(cmp1, cmp2), i1, leaf()) + leaf()]
    return out


def main(tier, seed, replay=None):
    global E
    E = Env()
    rep = Report(PROP, tier, seed)
    rng = random.Random(seed)
    if replay:
        r = json.load(open(replay))
        print("replay file records:", json.dumps(r, default=str)[:2000])
        return 1
    regen_all()
    ok_make, log = coq_make(["Proofs/AbsIntTable.vo", "Proofs/AbsIntSI.vo"])
    pr = check_props(PROP) if ok_make else {"ok": False, "obligations": [
        {"name": "C24_*", "closed": False, "axioms": ["<does not compile>"], "ok": False}], "log": log[-3000:]}
    rep.obligations(pr, "make Proofs/AbsIntTable.vo && coqc -R coq CV coq/Props/C24.v (Print Assumptions)")
    forb = scan_forbidden()
    proof_ok = pr["ok"] and not forb
    okd, dlog = build_driver(*BV_DRIVER)
    oks, slog = build_driver(*SI_DRIVER)
    if not oks:
        okd, dlog = False, slog
    stats = collections.Counter()
    ck = None
    if okd:
        drv = Driver("bvdriver")
        sdrv = Driver("sidriver")
        ck = Checker(drv, stats, sdrv)
        n_cases = 15000 if tier == "thorough" else 350
        try:
            for i in range(n_cases):
                case = Case(rng, "c24s%dn%d" % (seed, i), general=(i % 3 == 2))
                exprs = shaped(case, rng) if i % 2 == 0 else []
                if i % 3 == 2:
                    exprs += case.direct()
                for _ in range(3):
                    exprs.append(case.bv(rng.randint(1, 3)) if rng.random() < 0.6 else case.boolean(rng.randint(1, 2)))
                for j, e in enumerate(exprs):
                    if e.op in ("BVV", "BoolV"):
                        continue
                    rep.count((i, j))
                    ck.run(case, e, "%d.%d" % (i, j))
                if len(ck.fails) > 25:
                    break
        finally:
            drv.close()
            sdrv.close()
    # ---- report ----
    kf = {f["site"]: f for f in known_findings(PROP)}
    new = collections.defaultdict(list)
    if ck:
        for f in ck.transfer:
            site = "transfer:" + f["site"]
            if site in kf:
                rep.known(kf[site], "interval transfer function %s is unsound on %s (its own result; C21): %s" % (
                    f["site"], f["culprit"]["args"], f["expr"][:120]))
            else:
                new[site].append(f)
        for f in ck.fails:
            if f["site"] in kf:
                rep.known(kf[f["site"]], json.dumps(f, default=str)[:240])
            else:
                new[f["site"]].append(f)
    for s in sorted(new):
        rep.violation({"site": s, "count": len(new[s]), "failures": new[s][:20],
                       "input_format": "intervals as bits:stride,lower,upper per variable v0,v1,..; expr as claripy prints it"})
    rep.cov["rule"] = ("1..3 variables of width 2..4 annotated with intervals (non-wrapping aligned ones, and in a third of the cases any "
                       "interval); random trees of depth <= 3 over + - * & | ^ ~ neg shifts If comparisons (signed and unsigned) "
                       "Extract/ZeroExt/SignExt/Concat And/Or/Not, plus shapes around ITE excavation (two Ifs with equal, negated and "
                       "unrelated conditions under an operator or a comparison); every assignment inside the intervals is enumerated "
                       "with the extracted evaluator; SolverVSA eval/min/max/solution/satisfiable/is_true/is_false/add")
    rep.cov["histogram"] = dict(stats)
    mismatch = (ck.mismatch or ck.entry_mismatch) if ck else None
    rep.cov["traces_validated_against_impl"] = stats.get("corr_aeval", 0) if not mismatch else 0
    rep.cov["transfer_function_failures"] = collections.Counter(f["site"] for f in ck.transfer) if ck else {}
    if not new and (not proof_ok or mismatch or not okd):
        rep.violation({"broken": {"obligations_not_discharged": [o for o in pr["obligations"] if not o["ok"]], "forbidden": forb,
                                  "model_mismatch": mismatch, "driver": None if okd else dlog[-800:],
                                  "coq_log_tail": pr.get("log", "")[-1200:]},
                       "note": "theorem or correspondence no longer checks; the enumeration found no value outside the abstract result"},
                      found_input=False)
    elif new and mismatch:
        print("note: model/implementation mismatch as well: %s" % json.dumps(mismatch, default=str)[:600])
    rep.cov["trusted_base"] = KERNEL_TB + [
        "Print Assumptions of Props/C24.v theorems: Closed under the global context",
        "extraction (ExtrOcamlBasic only) of AbsInt.vsa_convert, Ast.eval, Build.mk; ocaml/bvdriver.ml; the run-time wrapper "
        "around BackendVSA._call that records operator applications",
        "the recorded results of + - neg ~ ZeroExt and the eight order comparisons on plain intervals are compared with the proved "
        "strided-interval model (histogram: entries_proved_by_C21), so their soundness is a theorem (C24_*_entry); the other "
        "interval transfer functions, join and comparison results are hypotheses of the theorems (recorded, not modelled; "
        "histogram: entries_assumed); "
        "annotations other than interval annotations on variables, value sets/regions and discrete sets are not modelled",
    ]
    rep.assumptions = ["soundness of each interval transfer function is C21's subject; a failure whose culprit node carries exactly the "
                       "interval-level result is attributed to that transfer function"]
    return rep.finish("proof")
