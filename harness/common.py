"""Shared plumbing for every check: regeneration of Gen/, Coq build, obligation
collection (Print Assumptions), extracted-driver build, evidence, replay files,
known findings.  Run by /venv/bin/python (so claripy from /repo is importable)."""
from __future__ import annotations

import fcntl
import hashlib
import json
import os
import re
import subprocess
import sys
import time

VERIF = os.path.dirname(os.path.dirname(os.path.abspath(__file__)))
REPO = os.environ.get("VERIF_REPO", "/repo")
COQ = os.path.join(VERIF, "coq")
BUILD = os.path.join(VERIF, "_build")
EXTRACT = os.path.join(BUILD, "extract")
EVID = os.path.join(VERIF, "evidence")
REPLAYS = os.path.join(EVID, "replays")
NPROC = os.cpu_count() or 4

os.makedirs(BUILD, exist_ok=True)
os.makedirs(EXTRACT, exist_ok=True)
os.makedirs(REPLAYS, exist_ok=True)
os.makedirs(os.path.join(COQ, "Gen"), exist_ok=True)

FORBIDDEN = re.compile(
    r"\b(Admitted|admit|Axiom|Axioms|Parameter|Parameters|Conjecture|Hypothesis|Variable|Variables|Hypotheses)\b"
    r"|Unset\s+Guard|bypass_check|type-in-type|impredicative-set|Admit Obligations|Unset\s+Universe|Unset\s+Positivity"
)
# axioms of the standard library / Flocq's dependencies that a theorem may depend on (named in DESIGN section 8)
AXIOM_WHITELIST = {
    "ClassicalDedekindReals.sig_forall_dec",
    "ClassicalDedekindReals.sig_not_dec",
    "FunctionalExtensionality.functional_extensionality_dep",
    "Classical_Prop.classic",
}
# Coq's primitive floats and 63-bit integers (kernel primitives, printed by Print Assumptions) and the standard library's
# axiomatic specification of the primitive-float operations (Coq.Floats.FloatAxioms), used through Flocq.IEEE754.PrimFloat
FLOAT_AXIOMS = {
    "PrimFloat.float", "PrimInt63.int", "PrimInt63.eqb", "PrimInt63.land", "PrimInt63.lor", "PrimInt63.lsl", "PrimInt63.lsr",
    "PrimInt63.sub", "abs", "add", "div", "eqb", "frshiftexp", "ldshiftexp", "leb", "ltb", "mul", "normfr_mantissa", "of_uint63",
    "opp", "sqrt", "sub",
    "Prim2SF_SF2Prim", "Prim2SF_valid", "SF2Prim_Prim2SF", "abs_spec", "add_spec", "div_spec", "eqb_spec", "leb_spec", "ltb_spec",
    "mul_spec", "opp_spec", "sqrt_spec", "sub_spec",
}


def sh(cmd, timeout=600, cwd=None, env=None, input=None):
    e = dict(os.environ)
    if env:
        e.update(env)
    try:
        p = subprocess.run(cmd, shell=isinstance(cmd, str), cwd=cwd, env=e, input=input,
                           stdout=subprocess.PIPE, stderr=subprocess.STDOUT, text=True, timeout=timeout)
        return p.returncode, p.stdout
    except subprocess.TimeoutExpired as ex:
        out = ex.stdout or ""
        if isinstance(out, bytes):
            out = out.decode(errors="replace")
        return 124, out + "\n[timeout]"


class BuildLock:
    def __enter__(self):
        self.f = open(os.path.join(BUILD, ".lock"), "w")
        fcntl.flock(self.f, fcntl.LOCK_EX)
        return self

    def __exit__(self, *a):
        fcntl.flock(self.f, fcntl.LOCK_UN)
        self.f.close()


def write_if_changed(path, text):
    try:
        if open(path).read() == text:
            return False
    except FileNotFoundError:
        pass
    tmp = path + ".tmp%d" % os.getpid()
    with open(tmp, "w") as f:
        f.write(text)
    os.replace(tmp, path)
    return True


# ----------------------------------------------------------------------------------------------
# Gen/ regeneration
# ----------------------------------------------------------------------------------------------

def regen(gen_name, fn):
    """fn() -> Coq text.  On translator failure a stub is written (so dependents fail to compile in a
    controlled way) and the error text is returned."""
    path = os.path.join(COQ, "Gen", gen_name + ".v")
    try:
        text = fn()
        err = None
    except Exception as ex:  # fail closed
        text = "(* TRANSLATOR FAILED: %s *)\nDefinition translator_failed_%s := tt.\n" % (
            str(ex).replace("*)", "* )"), gen_name)
        err = "%s: %s" % (type(ex).__name__, ex)
    with BuildLock():
        write_if_changed(path, text)
    return err


def regen_all():
    """Regenerate every Gen file from /repo's working tree. Returns {gen_name: error-or-None}."""
    sys.path.insert(0, os.path.join(VERIF, "tools"))
    errs = {}
    import gen_gcguard
    errs["GcGuard"] = regen("GcGuard", lambda: gen_gcguard.translate(
        os.path.join(REPO, "claripy/backends/backend_z3.py")))
    try:
        import py2coq
        for name, fn in py2coq.GENERATORS.items():
            errs[name] = regen(name, lambda fn=fn: fn(REPO))
    except ImportError:
        pass
    return errs


# ----------------------------------------------------------------------------------------------
# Coq build and obligations
# ----------------------------------------------------------------------------------------------

def coq_make(targets=None, timeout=1500):
    """Full .vo build of the given targets (paths relative to coq/, .vo) or of everything."""
    with BuildLock():
        mk = os.path.join(COQ, "Makefile")
        proj = os.path.join(COQ, "_CoqProject")
        if not os.path.exists(mk) or os.path.getmtime(mk) < os.path.getmtime(proj):
            rc, out = sh("coq_makefile -f _CoqProject -o Makefile", cwd=COQ, timeout=60)
            if rc != 0:
                return False, out
        tg = " ".join(targets) if targets else ""
        rc, out = sh("make -j%d %s" % (NPROC, tg), cwd=COQ, timeout=timeout)
        return rc == 0, out


def scan_forbidden():
    """Source scan: no Admitted/Axiom/... anywhere in the development (comments excluded)."""
    hits = []
    for root, _, files in os.walk(COQ):
        for fn in files:
            if not fn.endswith(".v"):
                continue
            p = os.path.join(root, fn)
            src = open(p).read()
            # strip comments (nested)
            out, depth, i = [], 0, 0
            while i < len(src):
                if src.startswith("(*", i):
                    depth += 1
                    i += 2
                elif src.startswith("*)", i) and depth > 0:
                    depth -= 1
                    i += 2
                else:
                    if depth == 0:
                        out.append(src[i])
                    elif src[i] == "\n":
                        out.append("\n")
                    i += 1
            code = "".join(out)
            # Section-local Variable/Hypothesis are allowed inside a Section: detect by tracking Section/End
            insec = 0
            for ln, line in enumerate(code.split("\n"), 1):
                if re.match(r"\s*Section\b", line):
                    insec += 1
                if re.match(r"\s*End\b", line) and insec > 0:
                    insec -= 1
                m = FORBIDDEN.search(line)
                if m:
                    word = m.group(0)
                    if word in ("Variable", "Variables", "Hypothesis", "Hypotheses") and insec > 0:
                        continue
                    hits.append("%s:%d: %s" % (os.path.relpath(p, VERIF), ln, line.strip()))
    return hits


def check_props(prop_file, timeout=900, extra_axioms=()):
    """Compile coq/Props/<prop_file>.v (its dependencies must be built) and collect, per theorem, the
    Print Assumptions verdict.  Returns dict(ok, obligations=[{name, closed, axioms}], log)."""
    src = open(os.path.join(COQ, "Props", prop_file + ".v")).read()
    names = re.findall(r"^\s*(?:Theorem|Lemma|Corollary)\s+([A-Za-z0-9_']+)", src, re.M)
    printed = re.findall(r"^\s*Print Assumptions\s+([A-Za-z0-9_']+)\s*\.", src, re.M)
    with BuildLock():
        rc, out = sh("coqc -R . CV Props/%s.v" % prop_file, cwd=COQ, timeout=timeout)
    obligations = []
    if rc == 0:
        # output: for each Print Assumptions, either "Closed under the global context" or "Axioms:\n name : type ..."
        chunks = re.split(r"(?=^Closed under the global context|^Axioms:)", out, flags=re.M)
        chunks = [c for c in chunks if c.startswith("Closed under") or c.startswith("Axioms:")]
        for i, nm in enumerate(printed):
            if i >= len(chunks):
                obligations.append({"name": nm, "closed": False, "axioms": ["<no Print Assumptions output>"], "ok": False})
                continue
            c = chunks[i]
            if c.startswith("Closed"):
                obligations.append({"name": nm, "closed": True, "axioms": [], "ok": True})
            else:
                axs = [a for a in re.findall(r"^([A-Za-z0-9_.']+)\s*(?::|$)", c, re.M) if a != "Axioms"]
                bad = [a for a in axs if a not in AXIOM_WHITELIST and a not in extra_axioms]
                obligations.append({"name": nm, "closed": False, "axioms": axs, "ok": not bad})
        for nm in names:
            if nm not in printed:
                obligations.append({"name": nm, "closed": False, "axioms": ["<no Print Assumptions>"], "ok": False})
    else:
        for nm in names:
            obligations.append({"name": nm, "closed": False, "axioms": ["<does not compile>"], "ok": False})
    return {"ok": rc == 0 and all(o["ok"] for o in obligations) and bool(obligations),
            "obligations": obligations, "log": out[-4000:], "compiled": rc == 0}


# ----------------------------------------------------------------------------------------------
# extraction + OCaml driver
# ----------------------------------------------------------------------------------------------

def build_driver(name, extract_v, ml_modules, deps_vo, timeout=600):
    """Extract coq/Extract/<extract_v>.v (writes <ml_modules>.ml into _build/extract) and link
    ocaml/<name>.ml against them.  Rebuilt only when an input is newer than the binary."""
    binp = os.path.join(BUILD, name)
    srcs = [os.path.join(COQ, "Extract", extract_v + ".v"), os.path.join(VERIF, "ocaml", name + ".ml"),
            os.path.join(VERIF, "ocaml", "sexp.ml"), os.path.join(VERIF, "ocaml", "conv.ml")] + [os.path.join(COQ, d) for d in deps_vo]
    with BuildLock():
        try:
            bt = os.path.getmtime(binp)
            if all(os.path.exists(s) and os.path.getmtime(s) <= bt for s in srcs):
                return True, ""
        except FileNotFoundError:
            pass
        rc, out = sh("coqc -R %s CV %s" % (COQ, os.path.join(COQ, "Extract", extract_v + ".v")),
                     cwd=EXTRACT, timeout=timeout)
        if rc != 0:
            return False, out
        write_if_changed(os.path.join(EXTRACT, "sexp.ml"), open(os.path.join(VERIF, "ocaml", "sexp.ml")).read())
        body = open(os.path.join(VERIF, "ocaml", name + ".ml")).read()
        if name != "gcdriver":
            # the driver body is compiled after `open <extracted module>` and the shared conversions
            body = "module ZZ = Z\nopen %s\n" % ml_modules[-1].capitalize() + open(os.path.join(VERIF, "ocaml", "conv.ml")).read() + body
        write_if_changed(os.path.join(EXTRACT, name + ".ml"), body)
        files = []
        for m in ml_modules:
            files += [m + ".mli", m + ".ml"]
        files += ["sexp.ml", name + ".ml"]
        rc, out2 = sh("ocamlfind ocamlopt -package zarith -linkpkg -O3 -w -a -o %s %s 2>&1 || "
                      "ocamlfind ocamlopt -package zarith -linkpkg -w -a -o %s %s" % (binp, " ".join(files), binp, " ".join(files)),
                      cwd=EXTRACT, timeout=timeout)
        return rc == 0, out + out2


def driver_binary_exists(name):
    """a driver built earlier (from the last tree on which the build succeeded).  When a regenerated file no longer
    compiles the build of the driver fails, but the old binary still contains the Spec evaluator and the last good model:
    the search for a failing input can go on with it (the check is reported as broken regardless)."""
    return os.path.exists(os.path.join(BUILD, name))


# ----------------------------------------------------------------------------------------------
# S-expressions
# ----------------------------------------------------------------------------------------------

def sx(x):
    if isinstance(x, (list, tuple)):
        return "(" + " ".join(sx(y) for y in x) + ")"
    if isinstance(x, bool):
        return "1" if x else "0"
    s = str(x)
    if s == "" or any(c in s for c in ' ()"\\'):
        return '"' + s.replace("\\", "\\\\").replace('"', '\\"') + '"'
    return s


def sparse(s):
    pos = 0
    n = len(s)

    def item():
        nonlocal pos
        while pos < n and s[pos].isspace():
            pos += 1
        if pos >= n:
            raise ValueError("eof")
        c = s[pos]
        if c == "(":
            pos += 1
            acc = []
            while True:
                while pos < n and s[pos].isspace():
                    pos += 1
                if pos >= n:
                    raise ValueError("unclosed")
                if s[pos] == ")":
                    pos += 1
                    return acc
                acc.append(item())
        if c == '"':
            pos += 1
            b = []
            while s[pos] != '"':
                if s[pos] == "\\":
                    pos += 1
                b.append(s[pos])
                pos += 1
            pos += 1
            return "".join(b)
        st = pos
        while pos < n and not s[pos].isspace() and s[pos] not in "()":
            pos += 1
        return s[st:pos]

    return item()


class Driver:
    def __init__(self, name):
        self.p = subprocess.Popen([os.path.join(BUILD, name)], stdin=subprocess.PIPE, stdout=subprocess.PIPE,
                                  text=True, bufsize=1)

    def ask(self, cmd):
        self.p.stdin.write(sx(cmd) + "\n")
        self.p.stdin.flush()
        line = self.p.stdout.readline()
        if not line:
            raise RuntimeError("driver died on %s" % sx(cmd)[:200])
        return sparse(line)

    def ask_many(self, cmds):
        return [self.ask(c) for c in cmds]

    def close(self):
        try:
            self.p.stdin.close()
            self.p.wait(timeout=5)
        except Exception:
            self.p.kill()


def coqchk(prop_file, timeout=1800):
    """coqchk -o on the compiled Props/<prop>.vo: re-checks it and all its dependencies with the independent checker and
    lists the axioms.  -> dict(ok, axioms, seconds, log)"""
    t0 = time.time()
    with BuildLock():
        rc, out = sh("coqchk -silent -o -R . CV CV.Props.%s" % prop_file, cwd=COQ, timeout=timeout)
    axioms = []
    m = re.search(r"\* Axioms:(.*?)\n\s*\n\* Constants/Inductives relying on type-in-type", out, re.S)
    if m:
        axioms = [a.strip() for a in m.group(1).split("\n") if a.strip() and a.strip() != "<none>"]
    bad = []
    for label in ("type-in-type", "unsafe (co)fixpoints", "positivity is assumed"):
        mm = re.search(re.escape(label) + r":\s*(.*?)\n\s*\n", out + "\n\n", re.S)
        if mm and mm.group(1).strip() != "<none>":
            bad.append(label)
    return {"ok": rc == 0 and m is not None and not bad, "axioms": axioms, "seconds": round(time.time() - t0, 1), "log": out[-3000:]}


# ----------------------------------------------------------------------------------------------
# known findings, evidence, violations
# ----------------------------------------------------------------------------------------------

def known_findings(prop):
    """Lines `known: property=Cxx site=<site> key=<key> :: text`; returns list of dicts. Never written at run time."""
    res = []
    p = os.path.join(VERIF, "KNOWN_FINDINGS.txt")
    if not os.path.exists(p):
        return res
    for line in open(p):
        line = line.strip()
        if not line.startswith("known:"):
            continue
        m = re.match(r"known:\s+property=(\S+)\s+site=(\S+)\s+(?:key=(\S+)\s+)?::\s*(.*)", line)
        if m and m.group(1) == prop:
            res.append({"site": m.group(2), "key": m.group(3), "text": m.group(4), "hits": 0})
    return res


class Report:
    """Collects what a check did; writes the evidence file; prints VIOLATION / KNOWN-FINDING lines."""

    def __init__(self, prop, tier, seed):
        self.prop, self.tier, self.seed = prop, tier, seed
        self.t0 = time.time()
        self.violations = []
        self.known_hits = {}
        self.cov = {"evaluations": 0, "distinct_nontrivial": 0, "rule": "", "samples": [],
                    "obligations": 0, "discharged": 0, "checker_cmd": "", "trusted_base": []}
        self.assumptions = []
        self._distinct = set()
        self._replay_n = 0
        for fn in os.listdir(REPLAYS):   # stale replay files of earlier runs of this check
            if fn.startswith("%s-%s-" % (prop, tier)):
                try:
                    os.remove(os.path.join(REPLAYS, fn))
                except OSError:
                    pass

    def obligations(self, props_result, checker_cmd):
        if self.tier == "thorough" and props_result.get("ok"):
            # the independent checker re-checks the compiled property file and everything it depends on
            ck = coqchk(self.prop)
            self.cov["coqchk"] = {k: ck[k] for k in ("ok", "axioms", "seconds")}
            if not ck["ok"]:
                props_result["ok"] = False
                props_result["log"] = (props_result.get("log") or "") + "\ncoqchk: " + ck["log"][-1500:]
                for o in props_result["obligations"]:
                    o["ok"] = False
                    o["axioms"] = list(o.get("axioms") or []) + ["<coqchk failed>"]
        obs = props_result["obligations"]
        self.cov["obligations"] += len(obs)
        self.cov["discharged"] += sum(1 for o in obs if o["ok"])
        self.cov["checker_cmd"] = checker_cmd
        self.cov.setdefault("theorems", []).extend(
            {"name": o["name"], "closed_under_global_context": o["closed"], "axioms": o["axioms"]} for o in obs)

    def count(self, case_key=None, nontrivial=True, n=1):
        self.cov["evaluations"] += n
        if case_key is not None and nontrivial:
            h = hashlib.blake2b(repr(case_key).encode(), digest_size=8).digest()
            self._distinct.add(h)

    def sample(self, s, limit=8):
        if len(self.cov["samples"]) < limit:
            self.cov["samples"].append(s)

    def write_replay(self, obj):
        self._replay_n += 1
        path = os.path.join(REPLAYS, "%s-%s-%d.json" % (self.prop, self.tier, self._replay_n))
        obj = dict(obj)
        obj.setdefault("property", self.prop)
        obj.setdefault("seed", self.seed)
        with open(path, "w") as f:
            json.dump(obj, f, indent=1, default=str)
        return path

    def violation(self, replay_obj, found_input=True):
        path = self.write_replay(replay_obj)
        self.violations.append(path)
        tail = "" if found_input else " no-failing-input-found"
        print("VIOLATION property=%s replay=%s%s" % (self.prop, path, tail), flush=True)

    def known(self, finding, what):
        k = finding["site"]
        if k not in self.known_hits:
            self.known_hits[k] = 0
            print("KNOWN-FINDING: property=%s site=%s %s" % (self.prop, k, what), flush=True)
        self.known_hits[k] += 1

    def finish(self, level="proof", extra=None):
        self.cov["distinct_nontrivial"] = len(self._distinct)
        if extra:
            self.cov.update(extra)
        if self.known_hits:
            self.cov["known_findings_hit"] = self.known_hits
        ev = {"property_id": self.prop, "tier": self.tier, "seed": self.seed, "level": level,
              "coverage": self.cov, "assumptions": self.assumptions,
              "wall_s": round(time.time() - self.t0, 2), "violations": len(self.violations)}
        os.makedirs(EVID, exist_ok=True)
        with open(os.path.join(EVID, self.prop + ".json"), "w") as f:
            json.dump(ev, f, indent=1, default=str)
        return 1 if self.violations else 0


KERNEL_TB = [
    "Coq 8.16.1 kernel (coqc; vm_compute used, native_compute not used); coqchk in the thorough tier",
    "no Axiom/Parameter/Admitted in the development (source scan on every run)",
]
