"""Shared by C04/C05/C07/C10: build operation programs on the real claripy; value of the written tree."""
from __future__ import annotations

import astio


def build_real(steps, names):
    """-> (real, sers): real[i] = ('ok', ast) | ('err'|'crash', name) | ('skip', None)"""
    real, sers = [], []
    for st in steps:
        if st[0] == "leaf":
            a = astio.make_leaf(st)
            real.append(("ok", a))
            sers.append(astio.ser(a, names))
            continue
        _, op, ints, refs, w = st
        if any(real[r][0] != "ok" for r in refs):
            real.append(("skip", None))
            sers.append(None)
            continue
        try:
            r = ("ok", astio.apply_op(op, ints, [real[x][1] for x in refs]))
        except Exception as ex:  # noqa
            r = astio.classify_exc(ex)
        real.append(r)
        try:
            sers.append(astio.ser(r[1], names) if r[0] == "ok" else None)
        except astio.Unser:
            sers.append(None)
    return real, sers


def var_table(steps, names):
    bvn, booln = {}, []
    for st in steps:
        if st[0] == "leaf" and st[1] == "BVS":
            bvn[names.id(st[3][0])] = st[4]
        elif st[0] == "leaf" and st[1] == "BoolS":
            booln.append(names.id(st[3][0]))
    return bvn, booln


def tree_values(drv, steps, names, bvs, bools):
    """SMT-LIB value of every step of the written program under one assignment (None where ill-typed)."""
    bvd, bd = dict((i, x) for i, x in bvs), dict((i, x) for i, x in bools)
    vals = []
    for st in steps:
        if st[0] == "leaf":
            if st[1] == "BVS":
                vals.append(["bv", st[4], bvd[names.id(st[3][0])]])
            elif st[1] == "BoolS":
                vals.append(["bool", bd[names.id(st[3][0])]])
            elif st[1] == "BoolV":
                vals.append(["bool", 1 if st[3][0] else 0])
            else:
                vals.append(["bv", st[4], st[3][0]])
            continue
        _, op, ints, refs, w = st
        if any(vals[r] is None for r in refs):
            vals.append(None)
            continue
        ev = drv.ask(["evalop", op, ints, [vals[r] for r in refs]])
        if ev[0] == "none":
            vals.append(None)
        elif ev[0] == "bv":
            vals.append(["bv", int(ev[1]), int(ev[2])])
        else:
            vals.append(["bool", int(ev[1])])
    return vals


def eval_ser(drv, s, bvs, bools):
    got = drv.ask(["eval", s, bvs, bools])
    if got[0] == "bv":
        return ["bv", int(got[1]), int(got[2])]
    if got[0] == "bool":
        return ["bool", int(got[1])]
    return None
