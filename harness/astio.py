"""claripy AST <-> S-expression of Model/Ast.v; operator table; tree generator shared by C01/C04/C05/C07/C10."""
from __future__ import annotations

import random

import claripy

INT_OPS = {"Extract": 2, "ZeroExt": 1, "SignExt": 1}
BOOL_RESULT = {"__eq__", "__ne__", "ULT", "ULE", "UGT", "UGE", "SLT", "SLE", "SGT", "SGE", "And", "Or", "Not"}
KNOWN_OPS = {"__add__", "__sub__", "__mul__", "__floordiv__", "__mod__", "SDiv", "SMod", "__neg__", "__invert__",
             "__and__", "__or__", "__xor__", "__lshift__", "__rshift__", "LShR", "RotateLeft", "RotateRight",
             "Concat", "Extract", "ZeroExt", "SignExt", "Reverse", "If"} | BOOL_RESULT


class Unser(Exception):
    pass


class Names:
    def __init__(self):
        self.ids = {}

    def id(self, name):
        if name not in self.ids:
            self.ids[name] = len(self.ids) + 1
        return self.ids[name]


def ser(a, names: Names, memo=None):
    """claripy AST -> nested lists (S-expression of Model/Ast.expr)."""
    if memo is None:
        memo = {}
    h = a.hash()
    if h in memo:
        return memo[h]
    op = a.op
    if op == "BVS":
        r = ["BVS", names.id(a.args[0]), a.length]
    elif op == "BVV":
        if a.args[0] is None:
            raise Unser("ESI")
        r = ["BVV", a.args[0], a.length]
    elif op == "BoolS":
        r = ["BoolS", names.id(a.args[0])]
    elif op == "BoolV":
        r = ["BoolV", 1 if a.args[0] else 0]
    elif op in KNOWN_OPS:
        k = INT_OPS.get(op, 0)
        ints = list(a.args[:k])
        args = [ser(x, names, memo) for x in a.args[k:]]
        ln = a.length if isinstance(a, claripy.ast.Bits) else -1
        r = ["N", op, ints, args, ln]
    else:
        raise Unser(op)
    if a.annotations:
        raise Unser("annotated")
    memo[h] = r
    return r


def norm(s):
    """driver output (all atoms strings) -> same shape with ints, for comparison with ser()."""
    if isinstance(s, list):
        return [norm(x) for x in s]
    try:
        return int(s)
    except ValueError:
        return s


def apply_op(op, ints, args):
    """Build through claripy's public API."""
    a = args
    if op == "__add__":
        return a[0] + a[1]
    if op == "__sub__":
        return a[0] - a[1]
    if op == "__mul__":
        return a[0] * a[1]
    if op == "__floordiv__":
        return a[0] // a[1]
    if op == "__mod__":
        return a[0] % a[1]
    if op == "SDiv":
        return a[0].SDiv(a[1])
    if op == "SMod":
        return a[0].SMod(a[1])
    if op == "__neg__":
        return -a[0]
    if op == "__invert__":
        return ~a[0]
    if op == "__and__":
        return a[0] & a[1]
    if op == "__or__":
        return a[0] | a[1]
    if op == "__xor__":
        return a[0] ^ a[1]
    if op == "__lshift__":
        return a[0] << a[1]
    if op == "__rshift__":
        return a[0] >> a[1]
    if op == "LShR":
        return claripy.LShR(a[0], a[1])
    if op == "RotateLeft":
        return claripy.RotateLeft(a[0], a[1])
    if op == "RotateRight":
        return claripy.RotateRight(a[0], a[1])
    if op == "Concat":
        return claripy.Concat(*a)
    if op == "Extract":
        return claripy.Extract(ints[0], ints[1], a[0])
    if op == "ZeroExt":
        return claripy.ZeroExt(ints[0], a[0])
    if op == "SignExt":
        return claripy.SignExt(ints[0], a[0])
    if op == "Reverse":
        return claripy.Reverse(a[0])
    if op == "__eq__":
        return a[0] == a[1]
    if op == "__ne__":
        return a[0] != a[1]
    if op in ("ULT", "ULE", "UGT", "UGE", "SLT", "SLE", "SGT", "SGE"):
        return getattr(claripy, op)(a[0], a[1])
    if op == "And":
        return claripy.And(*a)
    if op == "Or":
        return claripy.Or(*a)
    if op == "Not":
        return claripy.Not(a[0])
    if op == "If":
        return claripy.If(a[0], a[1], a[2])
    raise ValueError(op)


def classify_exc(ex):
    import claripy.errors as ce
    if isinstance(ex, ce.ClaripyZeroDivisionError):
        return ("err", "ZeroDiv")
    if isinstance(ex, ce.ClaripyTypeError):
        return ("err", "TypeErr")
    if isinstance(ex, ce.ClaripyOperationError):
        return ("err", "OpErr")
    if isinstance(ex, ce.ClaripyError):
        return ("err", type(ex).__name__)
    return ("crash", type(ex).__name__)


WIDTHS = [1, 2, 3, 4, 7, 8, 9, 16, 31, 32, 33, 64, 65, 128]


def const_pool(w, rng):
    m = (1 << w) - 1
    pool = [0, 1, 2, 3, w - 1, w, w + 1, (1 << (w - 1)) - 1, 1 << (w - 1), (1 << (w - 1)) + 1, m, m - 1,
            0xFF, 0xFF00, 0xFFFF, 0xFFFF0000, 0x7F, 0x80, 5, 6, 1 << rng.randrange(w), (1 << rng.randrange(1, w + 1)) - 1]
    if rng.random() < 0.4:
        return rng.getrandbits(w)
    return rng.choice(pool) & m


BIN_BV = ["__add__", "__sub__", "__mul__", "__and__", "__or__", "__xor__", "__lshift__", "__rshift__", "LShR",
          "__floordiv__", "__mod__", "SDiv", "SMod", "RotateLeft", "RotateRight"]
CMP = ["__eq__", "__ne__", "ULT", "ULE", "UGT", "UGE", "SLT", "SLE", "SGT", "SGE"]


class TreeGen:
    """Random well-typed operation sequences ("programs"): each step applies one operator to earlier results.
    Leaves: 3 BV variables per width in use, 2 Bool variables, constants from a boundary pool."""

    def __init__(self, rng, ops_allowed=None, widths=None):
        self.rng = rng
        self.allowed = ops_allowed
        self.widths = widths or WIDTHS

    def program(self, nsteps, w=None):
        rng = self.rng
        w = w or rng.choice(self.widths)
        steps = []  # (kind, op, ints, argrefs, width)  width -1 = bool
        # leaves
        for i in range(3):
            steps.append(("leaf", "BVS", [], ["v%d_%d" % (i, w)], w))
        for i in range(2):
            steps.append(("leaf", "BoolS", [], ["b%d" % i], -1))
        for _ in range(rng.randrange(2, 5)):
            steps.append(("leaf", "BVV", [], [const_pool(w, rng)], w))

        def pick(width, recent=True):
            c = [i for i, s in enumerate(steps) if s[4] == width]
            if not c:
                return None
            if recent and rng.random() < 0.6:
                return rng.choice(c[-4:])
            return rng.choice(c)

        tries = 0
        while len([s for s in steps if s[0] == "op"]) < nsteps and tries < nsteps * 20:
            tries += 1
            kind = rng.random()
            if kind < 0.45:
                op = rng.choice(BIN_BV)
                ww = rng.choice([s[4] for s in steps if s[4] > 0])
                a, b = pick(ww), pick(ww)
                cand = ("op", op, [], [a, b], ww)
            elif kind < 0.55:
                op = rng.choice(["__neg__", "__invert__"])
                ww = rng.choice([s[4] for s in steps if s[4] > 0])
                cand = ("op", op, [], [pick(ww)], ww)
            elif kind < 0.70:
                op = rng.choice(CMP)
                ww = rng.choice([s[4] for s in steps if s[4] > 0])
                cand = ("op", op, [], [pick(ww), pick(ww)], -1)
            elif kind < 0.78:
                op = rng.choice(["And", "Or", "Not"])
                if op == "Not":
                    cand = ("op", op, [], [pick(-1)], -1)
                else:
                    cand = ("op", op, [], [pick(-1), pick(-1)], -1)
            elif kind < 0.86:
                ww = rng.choice([s[4] for s in steps if s[4] != 0])
                cand = ("op", "If", [], [pick(-1), pick(ww), pick(ww)], ww)
            elif kind < 0.91:
                ww = rng.choice([s[4] for s in steps if s[4] > 0])
                n = rng.choice([0, 1, 1, 8, w])
                cand = ("op", rng.choice(["ZeroExt", "SignExt"]), [n], [pick(ww)], ww + n)
            elif kind < 0.96:
                ww = rng.choice([s[4] for s in steps if s[4] > 0])
                hi = rng.randrange(ww)
                lo = rng.randrange(hi + 1)
                if rng.random() < 0.3:
                    hi, lo = ww - 1, 0
                cand = ("op", "Extract", [hi, lo], [pick(ww)], hi - lo + 1)
            else:
                wa = rng.choice([s[4] for s in steps if s[4] > 0])
                wb = rng.choice([s[4] for s in steps if s[4] > 0])
                cand = ("op", "Concat", [], [pick(wa), pick(wb)], wa + wb)
            if any(x is None for x in cand[3]):
                continue
            if self.allowed is not None and cand[1] not in self.allowed:
                continue
            if cand[4] > 256:
                continue
            steps.append(cand)
        return steps


def make_leaf(step):
    _, op, _, a, w = step
    if op == "BVS":
        return claripy.BVS(a[0], w, explicit_name=True)
    if op == "BoolS":
        return claripy.BoolS(a[0], explicit_name=True)
    if op == "BVV":
        return claripy.BVV(a[0], w)
    if op == "BoolV":
        return claripy.BoolV(bool(a[0]))
    raise ValueError(op)
