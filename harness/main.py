import importlib
import os
import sys
import time

sys.path.insert(0, os.path.dirname(os.path.abspath(__file__)))
sys.path.insert(0, os.path.join(os.path.dirname(os.path.dirname(os.path.abspath(__file__))), "tools"))


def main():
    args = sys.argv[1:]
    if not args:
        print("usage: check <Cxx>|setup [quick|thorough] [--replay f]")
        return 2
    if args[0] == "setup":
        import setup_all
        return setup_all.main()
    prop = args[0]
    tier = os.environ.get("VERIF_TIER") or "quick"
    replay = None
    i = 1
    while i < len(args):
        if args[i] in ("quick", "thorough"):
            tier = args[i]
        elif args[i] == "--replay":
            replay = args[i + 1]
            i += 1
        i += 1
    seed = int(os.environ.get("VERIF_SEED", "20260921"))
    t0 = time.time()
    if os.environ.get("VERIF_CHILD") != "1":
        # the property check runs in a child process: if the code under test takes the interpreter down (segmentation
        # fault inside Z3, unbounded recursion, os._exit) the check still ends with a VIOLATION line and a replay file
        import json
        import subprocess
        env = dict(os.environ, VERIF_CHILD="1")
        p = subprocess.run([sys.executable, os.path.abspath(__file__)] + args, env=env)
        rc = p.returncode
        if rc not in (0, 1):
            from common import REPLAYS
            os.makedirs(REPLAYS, exist_ok=True)
            path = os.path.join(REPLAYS, "%s-%s-crash.json" % (prop, tier))
            json.dump({"property": prop, "seed": seed, "tier": tier,
                       "broken": "the check process ended abnormally (exit status %d%s) while driving the implementation" % (
                           rc, ", killed by signal %d" % -rc if rc < 0 else ""),
                       "note": "the correspondence can no longer be run; no failing input was isolated"}, open(path, "w"), indent=1)
            print("VIOLATION property=%s replay=%s no-failing-input-found" % (prop, path), flush=True)
            rc = 1
        return rc
    mod = importlib.import_module(prop.lower())
    try:
        rc = mod.main(tier, seed, replay)
    except Exception:  # noqa -- the implementation raised where the harness does not expect it
        import json
        import traceback
        from common import REPLAYS
        tb = traceback.format_exc()
        print(tb)
        os.makedirs(REPLAYS, exist_ok=True)
        path = os.path.join(REPLAYS, "%s-%s-exception.json" % (prop, tier))
        json.dump({"property": prop, "seed": seed, "tier": tier, "broken": "the check raised while driving the implementation",
                   "traceback": tb[-3000:], "note": "the correspondence can no longer be run; no failing input was isolated"},
                  open(path, "w"), indent=1)
        print("VIOLATION property=%s replay=%s no-failing-input-found" % (prop, path), flush=True)
        rc = 1
    print("[%s %s] exit %d in %.1fs" % (prop, tier, rc, time.time() - t0))
    return rc


if __name__ == "__main__":
    sys.exit(main())
