import importlib
import os
import sys
import time

sys.path.insert(0, os.path.dirname(os.path.abspath(__file__)))
sys.path.insert(0, os.path.join(os.path.dirname(os.path.dirname(os.path.abspath(__file__))), "tools"))


def main():
    args = sys.argv[1:]
    if not args:
        print("usage: check <Cxx>|setup [quick|thorough] [--replay f]")
        return 2
    if args[0] == "setup":
        import setup_all
        return setup_all.main()
    prop = args[0]
    tier = os.environ.get("VERIF_TIER") or "quick"
    replay = None
    i = 1
    while i < len(args):
        if args[i] in ("quick", "thorough"):
            tier = args[i]
        elif args[i] == "--replay":
            replay = args[i + 1]
            i += 1
        i += 1
    seed = int(os.environ.get("VERIF_SEED", "20260921"))
    mod = importlib.import_module(prop.lower())
    t0 = time.time()
    rc = mod.main(tier, seed, replay)
    print("[%s %s] exit %d in %.1fs" % (prop, tier, rc, time.time() - t0))
    return rc


if __name__ == "__main__":
    sys.exit(main())
