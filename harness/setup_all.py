"""./check setup : regenerate Gen/, full Coq build, build every driver.  Offline, from files on disk only."""
import os
import sys

from common import COQ, build_driver, coq_make, regen_all, sh

DRIVERS = [
    ("gcdriver", "ExtractGc", ["gcmodel"], ["Model/GcLang.vo", "Gen/GcGuard.vo"]),
    ("bvdriver", "ExtractBv", ["bvmodel"], ["Model/Build.vo", "Model/PyPrelude.vo", "Model/Ast.vo", "Model/Rewrite.vo", "Model/Solve.vo", "Model/Frontend.vo", "Model/Numeral.vo", "Model/Annot.vo", "Model/HashCons.vo", "Model/Pickle.vo", "Model/Z3Stack.vo", "Model/Str.vo", "Model/Tls.vo", "Model/AbsInt.vo", "Model/Balance.vo", "Model/Replace.vo", "Model/Track.vo", "Model/CompCache.vo", "Gen/BvConcrete.vo"]),
    ("sidriver", "ExtractSi", ["simodel"], ["Model/SI.vo", "Model/PyPrelude.vo", "Gen/SIHelpers.vo", "Model/Lift.vo", "Proofs/LiftSI.vo", "Proofs/SIZext.vo", "Model/SIUnion.vo", "Model/SICmp.vo", "Model/SIQuery.vo", "Model/SINot.vo", "Model/SIZextM.vo"]),
]


def main():
    errs = regen_all()
    for k, v in errs.items():
        if v:
            print("translator %s failed: %s" % (k, v))
    ok, log = coq_make(None, timeout=3000)
    print(log[-3000:])
    if not ok:
        print("setup: Coq build failed")
        return 1
    for d in DRIVERS:
        okd, dlog = build_driver(*d)
        if not okd:
            print(dlog[-3000:])
            print("setup: driver %s failed" % d[0])
            return 1
    print("setup ok")
    return 0
