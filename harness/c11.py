"""C11 -- solver answers after any history (Solver, SolverCacheless, SolverStrings).
Proof: Props/C11.v over Model/Solve.v (binary search of BackendZ3._extrema, enumeration of _batch_eval,
cached-then-solve of ModelCacheMixin.batch_eval, FullFrontend.min/max).
Tie: the extracted search loops are run against an oracle computed from the enumerated feasible set and must
return what the real backend returns with the same number of solver checks.
Direct property test: random histories and cache-aimed scenarios against a brute-force reference."""
from __future__ import annotations

import collections
import json
import os
import random
import sys
import time

from common import KERNEL_TB, REPO, Driver, Report, build_driver, check_props, coq_make, regen_all, scan_forbidden
from c01 import BV_DRIVER

PROP = "C11"
BV_DRIVER2 = (BV_DRIVER[0], BV_DRIVER[1], BV_DRIVER[2], BV_DRIVER[3] + ["Model/Solve.vo"])


def search_loop_correspondence(claripy, drv, rng, n, stats, rep):
    """BackendZ3._max/_min and eval vs the extracted Model/Solve.v loops."""
    import claripy.backends.backend_z3 as bz
    import solverhist
    bk = claripy.backends.z3
    mismatch = None
    calls = []
    orig = bz.z3_solver_sat

    def counting(solver, extra, occasion):
        calls.append(occasion)
        return orig(solver, extra, occasion)
    bz.z3_solver_sat = counting
    try:
        for k in range(n):
            u = solverhist.Universe(claripy, drv, tag="sl%d_" % (k % 5))
            forms, exprs = solverhist.constraint_pool(u, rng), solverhist.expr_pool(u, rng)
            cs = [rng.choice(forms)() for _ in range(rng.randrange(0, 3))]
            e = rng.choice(exprs)
            feas = u.feasible(cs, e)
            if not feas:
                continue
            w = e.length
            signed = rng.random() < 0.5
            is_max = rng.random() < 0.5
            keys = [solverhist.tosigned(v, w) for v in feas] if signed else feas
            lo, hi = (-(1 << (w - 1)), (1 << (w - 1)) - 1) if signed else (0, (1 << w) - 1)
            del calls[:]
            s = bk.solver()
            real = (bk.max if is_max else bk.min)(e, extra_constraints=cs, solver=s, signed=signed)
            nreal = len([c for c in calls if c in ("max", "min")])
            m = drv.ask(["extrema", 1 if is_max else 0, lo, hi, keys])
            want = (max if is_max else min)(keys)
            # the real code issues one more check when its last probe was unsat (to report a witness model)
            last_unsat = (int(m[0]) != (hi_final := None)) if False else None
            stats["extrema"] += 1
            rep.count(("extrema", str(e), tuple(map(str, cs)), signed, is_max), nontrivial=len(keys) > 1)
            if int(m[0]) != real and mismatch is None:
                mismatch = {"what": "extrema: model and BackendZ3 differ", "expr": str(e), "constraints": [str(c) for c in cs],
                            "signed": signed, "is_max": is_max, "model": m, "backend": real, "feasible_keys": keys[:30]}
            if real != want:
                return mismatch, {"what": "BackendZ3.%s(signed=%s) returned %s, true optimum %s" % ("max" if is_max else "min", signed, real, want),
                                  "expr": str(e), "constraints": [str(c) for c in cs], "feasible": keys[:40]}
            if nreal not in (int(m[1]), int(m[1]) + 1) and mismatch is None:
                mismatch = {"what": "extrema: number of solver checks differs", "model_checks": int(m[1]), "backend_checks": nreal,
                            "expr": str(e), "constraints": [str(c) for c in cs]}
            # enumeration
            nn = rng.choice([1, 2, 3, 8, 40])
            s = bk.solver()
            real = list(bk.eval(e, nn, extra_constraints=cs, solver=s))
            mm = [int(x) for x in drv.ask(["enumerate", nn, real + [v for v in feas if v not in real]])]
            stats["enumerate"] += 1
            if mm[:len(real)] != real[:len(mm)] and mismatch is None:
                mismatch = {"what": "enumerate: model replay differs", "model": mm, "backend": real}
            if any(v not in feas for v in real) or len(set(real)) != len(real) or len(real) != min(nn, len(feas)):
                return mismatch, {"what": "BackendZ3.eval returned %s; feasible %s; n=%d" % (real, feas, nn), "expr": str(e),
                                  "constraints": [str(c) for c in cs]}
    finally:
        bz.z3_solver_sat = orig
    return mismatch, None


def main(tier, seed, replay=None):
    sys.path.insert(0, REPO)
    import claripy
    import solverhist
    rep = Report(PROP, tier, seed)
    rng = random.Random(seed)
    if replay:
        r = json.load(open(replay))
        print("replay file records:", json.dumps(r, default=str)[:1500])
        return 1
    regen_all()
    ok_make, log = coq_make(["Proofs/SolveProof.vo"])
    pr = check_props("C11") if ok_make else {"ok": False, "obligations": [
        {"name": "C11_extrema_max", "closed": False, "axioms": ["<does not compile>"], "ok": False}], "log": log[-3000:]}
    rep.obligations(pr, "make Proofs/SolveProof.vo && coqc -R coq CV coq/Props/C11.v (Print Assumptions)")
    forb = scan_forbidden()
    proof_ok = pr["ok"] and not forb
    okd, dlog = build_driver(*BV_DRIVER2)
    drv = Driver("bvdriver") if okd else None
    stats = collections.Counter()
    fail = mismatch = None
    if drv is not None:
        mismatch, fail = search_loop_correspondence(claripy, drv, rng, 60 if tier == "quick" else 1500, stats, rep)
        facs = [("Solver", lambda: claripy.Solver()), ("SolverCacheless", lambda: claripy.SolverCacheless()),
                ("SolverStrings", lambda: claripy.SolverStrings())]
        for reuse in ([False, True] if tier == "quick" else [False, True, False]):
            if fail:
                break
            claripy.backends.z3.reuse_z3_solver = reuse
            try:
                fail = solverhist.run_histories(claripy, drv, rng, facs, 300 if tier == "quick" else 4000, 14, report=rep,
                                                tag="c11r%d" % int(reuse))
                stats["histories(reuse=%s)" % reuse] += 300 if tier == "quick" else 4000
                if not fail:
                    fail = solverhist.cache_scenarios(claripy, drv, rng, facs, 120 if tier == "quick" else 2000, report=rep)
                    stats["cache_scenarios(reuse=%s)" % reuse] += 120 if tier == "quick" else 2000
            finally:
                claripy.backends.z3.reuse_z3_solver = False
    rep.cov["rule"] = ("(1) BackendZ3.max/min/eval on random constraint sets over x,y:BV4 z:BV3 b:Bool against the extracted search loops "
                       "(same result, same number of checks) and the enumerated feasible set; (2) random 14-step histories of add/"
                       "satisfiable/eval/batch_eval/min/max (signed and unsigned, with and without extra constraints)/solution/is_true/"
                       "simplify/downsize/branch on Solver, SolverCacheless, SolverStrings with REUSE_Z3_SOLVER off and on, every "
                       "answer checked against enumeration of all 4096 assignments; (3) cache-aimed scenarios (exhausting eval, then "
                       "every query with extras excluding one cached model).  distinct = distinct history; non-trivial = >= 4 steps")
    rep.cov["histogram"] = dict(stats)
    rep.cov["traces_validated_against_impl"] = stats["extrema"] + stats["enumerate"] if not mismatch else 0
    if fail:
        rep.violation(fail)
    elif not proof_ok or mismatch or drv is None:
        rep.violation({"broken": {"obligations_not_discharged": [o for o in pr["obligations"] if not o["ok"]], "forbidden": forb,
                                  "search_loop_mismatch": mismatch, "driver": None if okd else dlog[-800:],
                                  "coq_log_tail": pr.get("log", "")[-1200:]},
                       "note": "theorem or correspondence no longer checks; histories against the brute-force reference found no wrong answer"},
                      found_input=False)
    if drv:
        drv.close()
    rep.cov["trusted_base"] = KERNEL_TB + [
        "Print Assumptions of Props/C11.v theorems: Closed under the global context",
        "hypothesis of every theorem: the solver oracle is truthful (a check answers sat iff the queried set has a model)",
        "modelled, tied by result-and-check-count comparison: BackendZ3._extrema, _batch_eval, FullFrontend.min/max, the "
        "cached-then-solve structure of ModelCacheMixin.batch_eval.  NOT modelled (testing only): the bookkeeping of "
        "SatCacheMixin/ModelCacheMixin across histories (exhaustion marks, cache invalidation on add), constraint expansion, "
        "filtering, deduplication, simplification, solver-object management",
        "reference of the direct test: enumeration with the extracted SMT-LIB evaluator (Model/Ast.v eval)",
    ]
    rep.assumptions = ["Z3 answers truthfully", "Z3's simplifier preserves the models of the constraint set (checked by enumeration in histories)"]
    return rep.finish("proof")
