"""C18: pickled expressions and solvers round-trip with identical meaning.

Proof: Props/C18.v over Model/Pickle.v -- a composite solver answers exactly when its unchecked set covers every child
not yet known satisfiable; the pickle round trip re-establishes that (the pinned __setstate__ did not: repaired).
Tie: the child/unchecked/flag state of real SolverComposite objects after random histories is fed to the extracted check,
before and after a real pickle round trip, with child satisfiability decided by enumeration.
Search: expressions (annotated, all construction shapes) pickled in-process (same object) and into fresh processes with two
other hash seeds (structurally equal: operation, arguments, width, variables, annotations); solver histories of the exact
frontends with pickle round trips interleaved, every later answer against enumeration; solvers pickled into a fresh
process answer a fixed battery like the original.
"""
from __future__ import annotations

import collections
import json
import os
import pickle
import random
import subprocess
import sys
import tempfile

from common import KERNEL_TB, REPO, VERIF, Driver, Report, build_driver, check_props, coq_make, regen_all, scan_forbidden
from c01 import BV_DRIVER

PROP = "C18"


def child(kind, payload, hashseed):
    fd, path = tempfile.mkstemp(prefix="c18_", suffix=".pkl")
    try:
        with os.fdopen(fd, "wb") as f:
            pickle.dump(payload, f)
        env = dict(os.environ, PYTHONHASHSEED=str(hashseed), PYTHONPATH="%s:%s/harness" % (REPO, VERIF))
        p = subprocess.run([sys.executable, os.path.join(VERIF, "harness", "c18ann.py"), kind, path], env=env, capture_output=True, text=True, timeout=300)
        if p.returncode != 0:
            return ("error", p.stderr[-1500:])
        return ("ok", json.loads(p.stdout.strip().splitlines()[-1]))
    finally:
        os.unlink(path)


def main(tier, seed, replay=None):
    sys.path.insert(0, REPO)
    import claripy
    import solverhist
    import c18ann
    from c08 import Gen
    rep = Report(PROP, tier, seed)
    rng = random.Random(seed)
    if replay:
        r = json.load(open(replay))
        print("replay file records:", json.dumps(r, default=str)[:1500])
        return 1
    regen_all()
    ok_make, log = coq_make(["Proofs/PickleSound.vo"])
    pr = check_props(PROP) if ok_make else {"ok": False, "obligations": [
        {"name": "C18_*", "closed": False, "axioms": ["<does not compile>"], "ok": False}], "log": log[-3000:]}
    rep.obligations(pr, "make Proofs/PickleSound.vo && coqc -R coq CV coq/Props/C18.v (Print Assumptions)")
    forb = scan_forbidden()
    proof_ok = pr["ok"] and not forb
    okd, dlog = build_driver(*BV_DRIVER)
    stats = collections.Counter()
    fail = mismatch = None
    drv = Driver("bvdriver") if okd else None

    def bad(what, **kw):
        nonlocal fail
        if fail is None:
            fail = {"what": what}
            fail.update({k: (v if isinstance(v, (int, list, dict, type(None))) else str(v)) for k, v in kw.items()})

    if drv is not None:
        # ---------- (0) composite state against the extracted check, before and after the round trip ----------
        for it in range(40 if tier == "quick" else 1500):
            if fail or mismatch:
                break
            u = solverhist.Universe(claripy, drv, tag="pk%d_" % (it % 5))
            forms = solverhist.constraint_pool(u, rng)
            s = claripy.SolverComposite()
            added = []
            for _ in range(rng.randrange(1, 7)):
                c = claripy.false() if rng.random() < 0.12 else rng.choice(forms)()
                s.add(c)
                added.append(c)
                if rng.random() < 0.3:
                    try:
                        s.eval(rng.choice([u.x, u.y, u.z]), 2)
                    except claripy.errors.ClaripyError:
                        pass
            for round_trip in (False, True):
                obj = pickle.loads(pickle.dumps(s)) if round_trip else s
                kids = obj._solver_list
                ids = {id(k): i for i, k in enumerate(kids)}
                ksat = [[i, 1 if u.models(list(k.constraints)) else 0] for i, k in enumerate(kids)]
                unch = [ids[id(k)] for k in obj._unchecked_solvers if id(k) in ids]
                m = drv.ask(["comp_check", ksat, unch, 1 if obj._unsat else 0, 0])
                real = obj.satisfiable()
                want = bool(u.models(added))
                stats["comp_states"] += 1
                rep.count(("comp", seed, it, round_trip))
                if (m[0] == "1") != real and mismatch is None:
                    mismatch = {"kind": "model/implementation mismatch", "what": "check_satisfiability of a composite state", "children_sat": ksat,
                                "unchecked": unch, "unsat_flag": obj._unsat, "model": m, "real": real, "after_round_trip": round_trip}
                if real != want:
                    bad("SolverComposite%s answers satisfiable()=%s, enumeration says %s" % (" after a pickle round trip" if round_trip else "", real, want),
                        constraints=[str(c) for c in added])
        # ---------- (1) expressions ----------
        u = solverhist.Universe(claripy, drv, tag="u")
        g = Gen(claripy, u, rng)
        exprs = []
        for _ in range(60 if tier == "quick" else 2500):
            e = g.any(rng.choice([1, 2, 3, 4]))
            if rng.random() < 0.5:
                e = e.annotate(*[c18ann.Tag(rng.randrange(50), rng.random() < 0.5, rng.random() < 0.5) for _ in range(rng.choice([1, 2]))])
            if rng.random() < 0.3 and e.depth > 1:
                sub = [a for a in e.args if isinstance(a, claripy.ast.Base)]
                e = e.make_like(e.op, tuple((a.annotate(c18ann.Tag(rng.randrange(50), False, True)) if (isinstance(a, claripy.ast.Base) and a is sub[0]) else a)
                                            for a in e.args))
            exprs.append(e)
        # targeted: the same annotation twice, and several annotations whose order a frozenset would permute
        for k in range(6):
            e = g.any(2)
            t = c18ann.Tag(40 + k, False, rng.random() < 0.5)
            exprs.append(e.annotate(t, c18ann.Tag(40 + k, t._e, t._r)))
            exprs.append(g.any(2).annotate(*[c18ann.Tag(100 + 7 * k + j, False, False) for j in range(5)]))
        for e in exprs:
            r = pickle.loads(pickle.dumps(e))
            stats["expr_inprocess"] += 1
            if r is not e:
                bad("unpickling in the same process gave another object", expression=e, got=r)
                break
        if not fail:
            want = [c18ann.describe(e) for e in exprs]
            for hs in ((3, 77) if tier == "quick" else (3, 77, 12345, 999)):
                st, got = child("expr", exprs, hs)
                stats["expr_crossprocess"] += len(exprs)
                if st != "ok":
                    bad("a fresh process could not load the pickled expressions", error=got)
                    break
                if got != json.loads(json.dumps(want)):
                    i = next(i for i in range(len(want)) if got[i] != json.loads(json.dumps(want[i])))
                    bad("an expression unpickled in a fresh process (PYTHONHASHSEED=%d) differs structurally" % hs, original=json.dumps(want[i])[:600],
                        loaded=json.dumps(got[i])[:600])
                    break
        # ---------- (2) solver histories with pickle round trips ----------
        if not fail:
            facs = [("Solver", lambda: claripy.Solver()), ("SolverCacheless", lambda: claripy.SolverCacheless()),
                    ("SolverComposite", lambda: claripy.SolverComposite())]
            ops = ["add", "add", "add", "pickle", "pickle", "satisfiable", "eval", "eval", "batch_eval", "min", "max", "solution", "is_true",
                   "simplify", "branch", "eval_bool"]
            n = 200 if tier == "quick" else 4000
            fail = solverhist.run_histories(claripy, drv, rng, facs, n, 16, report=rep, tag="c18", ops=ops)
            stats["pickle_histories"] += n
        # ---------- (3) solvers into a fresh process ----------
        if not fail:
            # targeted (found by the thorough tier): a composite whose simplification after loading splits off a part `x == c`
            tu = solverhist.Universe(claripy, drv, tag="xpt_")
            for cons in ([claripy.SMod(tu.x, tu.y) == 14, tu.x * tu.y == 2], [tu.x + tu.y == 9, tu.x ^ tu.y == 15], [tu.x - tu.y == 3, tu.x * tu.y == 10]):
                s = claripy.SolverComposite()
                try:
                    for c_ in cons:
                        s.add(c_)
                        s.eval(rng.choice([tu.x, tu.y]), 3)
                except claripy.errors.ClaripyError:
                    continue
                names = [tu.x.args[0], tu.y.args[0], tu.z.args[0]]
                st, got = child("solver", (s, names), 5)
                mine = json.loads(json.dumps(c18ann.battery(s, names)))
                stats["solver_crossprocess"] += 1
                if st != "ok" or got != mine:
                    bad("a solver unpickled in a fresh process answers differently", solver="SolverComposite",
                        constraints=[str(c) for c in s.constraints], original=str(mine), loaded=str(got))
                    break
        if not fail:
            for it in range(25 if tier == "quick" else 120):
                uu = solverhist.Universe(claripy, drv, tag="xp%d_" % it)
                forms = solverhist.constraint_pool(uu, rng)
                cls = rng.choice([claripy.Solver, claripy.SolverCacheless, claripy.SolverComposite])
                s = cls()
                for _ in range(rng.randrange(0, 5)):
                    s.add(rng.choice(forms)())
                    if rng.random() < 0.4:
                        try:
                            s.eval(uu.x, 3)
                        except claripy.errors.ClaripyError:
                            pass
                names = [uu.x.args[0], uu.y.args[0], uu.z.args[0]]
                st, got = child("solver", (s, names), rng.choice([1, 5, 99]))
                mine = json.loads(json.dumps(c18ann.battery(s, names)))
                stats["solver_crossprocess"] += 1
                if st != "ok":
                    bad("a fresh process could not load the pickled solver", solver=cls.__name__, error=got)
                    break
                if got != mine:
                    bad("a solver unpickled in a fresh process answers differently", solver=cls.__name__, constraints=[str(c) for c in s.constraints],
                        original=str(mine), loaded=str(got))
                    break
    rep.cov["rule"] = ("(0) SolverComposite states after random histories: the extracted check on (children satisfiable?, unchecked, flag) against the "
                       "real answer and enumeration, before and after a pickle round trip; (1) expressions over x,y:BV4 z:BV3 b:Bool with "
                       "eliminatable/pinned/relocatable annotations on tops and arguments: in-process round trip gives the same object, fresh "
                       "processes with other hash seeds give the same structure; (2) 16-step histories of Solver/SolverCacheless/SolverComposite "
                       "with pickle round trips interleaved, every answer against enumeration; (3) solvers pickled into a fresh process answer a "
                       "fixed battery like the original")
    rep.cov["histogram"] = dict(stats)
    rep.cov["traces_validated_against_impl"] = stats["comp_states"] if not mismatch else 0
    if fail:
        rep.violation(fail)
    elif not proof_ok or mismatch or drv is None:
        rep.violation({"broken": {"obligations_not_discharged": [o for o in pr["obligations"] if not o["ok"]], "forbidden": forb,
                                  "model_mismatch": mismatch, "driver": None if okd else dlog[-800:],
                                  "coq_log_tail": pr.get("log", "")[-1200:]},
                       "note": "theorem or correspondence no longer checks; no differing round trip was found"}, found_input=False)
    if drv:
        drv.close()
    rep.cov["trusted_base"] = KERNEL_TB + [
        "Print Assumptions of Props/C18.v theorems: Closed under the global context",
        "Model/Pickle.v covers the SolverComposite state only (children, unchecked set, unsat flag); the __getstate__/__setstate__ chains of "
        "the other frontends and Base.__reduce__ are tested, not modelled; floats and strings are not covered",
    ]
    rep.assumptions = ["Z3 answers truthfully", "annotation classes are importable in the loading process"]
    return rep.finish("proof")
