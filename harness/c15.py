"""C15: merge, combine and split have exactly their documented meaning.

Proof: Props/C15.v over Model/Frontend.v (add, merge with and without ancestor, combine, the grouping of split).
Tie: the extracted model is run next to real Solver / SolverCacheless objects; the constraint lists are compared.
Search: every real result (also of SolverComposite, which has its own implementation and no model) is judged against the
enumeration of all 4096 assignments: model sets of merge/combine/split and the answers the resulting solvers give.
"""
from __future__ import annotations

import collections
import json
import random
import sys

from common import KERNEL_TB, REPO, Driver, Report, build_driver, check_props, coq_make, known_findings, regen_all, scan_forbidden
from c01 import BV_DRIVER

PROP = "C15"


def main(tier, seed, replay=None):
    sys.path.insert(0, REPO)
    import astio
    import claripy
    import solverhist
    rep = Report(PROP, tier, seed)
    rng = random.Random(seed)
    if replay:
        r = json.load(open(replay))
        print("replay file records:", json.dumps(r, default=str)[:1500])
        return 1
    regen_all()
    ok_make, log = coq_make(["Proofs/FrontendSound.vo", "Proofs/SplitComposite.vo"])
    pr = check_props(PROP) if ok_make else {"ok": False, "obligations": [
        {"name": "C15_*", "closed": False, "axioms": ["<does not compile>"], "ok": False}], "log": log[-3000:]}
    rep.obligations(pr, "make Proofs/FrontendSound.vo && coqc -R coq CV coq/Props/C15.v (Print Assumptions)")
    forb = scan_forbidden()
    proof_ok = pr["ok"] and not forb
    okd, dlog = build_driver(*BV_DRIVER)
    stats = collections.Counter()
    fail = mismatch = None
    drv = Driver("bvdriver") if okd else None
    if drv is not None:
        u = solverhist.Universe(claripy, drv, tag="u")
        names = u.names
        forms = solverhist.constraint_pool(u, rng)
        N = u.n_assign
        ALL = frozenset(range(N))

        def ser(e):
            return astio.ser(e, names)

        def mset(cons):
            return frozenset(u.models(list(cons)))

        kf = {f["site"]: f for f in known_findings(PROP)}

        def bad(what, **kw):
            nonlocal fail
            site = "SolverComposite.concrete_false"
            if kw.get("class") == "SolverComposite" and site in kf and any(
                    c.op == "BoolV" and c.args[0] is False for _, l in added.values() for c in l):
                rep.known(kf[site], what + " -- " + kf[site]["text"][:150])
                return
            if fail is None:
                fail = {"what": what}
                fail.update({k: (v if isinstance(v, (int, list, dict, type(None))) else str(v)) for k, v in kw.items()})

        def corr(kind, model_state, real_solver, ctx):
            nonlocal mismatch
            if model_state is None:
                return
            try:
                rs = [ser(c) for c in real_solver.constraints]
            except astio.Unser:
                return
            stats["model_" + kind] += 1
            if astio.norm(model_state[0]) != rs and mismatch is None:
                mismatch = {"kind": "model/implementation mismatch", "operation": kind, "model_constraints": astio.norm(model_state[0]),
                            "real_constraints": rs, "input": ctx}

        def answers_ok(kind, s, expect, ctx):
            """the solver's answers against its expected model set"""
            try:
                sat = s.satisfiable()
                if sat != bool(expect):
                    bad("%s: satisfiable() is %s but the expected model set has %d models" % (kind, sat, len(expect)), **ctx)
                    return
                if expect:
                    for e in (u.x, u.y + u.z.zero_extend(1)):
                        vals = u.values(e)
                        want = sorted({vals[i] for i in expect})
                        got = sorted(s.eval(e, 40))
                        if got != want:
                            bad("%s: eval(%s, 40) = %s, expected %s" % (kind, e, got, want), **ctx)
                            return
            except claripy.errors.UnsatError:
                if expect:
                    bad("%s: UnsatError although models exist" % kind, **ctx)

        added = {}   # id(solver) -> the constraints this harness added to it (independent of the object's own list)

        def mk_solver(cls, batches):
            s = cls()
            st = [[], []]
            added[id(s)] = (s, [])
            for b in batches:
                s.add(list(b))
                added[id(s)][1].extend(b)
                if st is not None:
                    try:
                        st = drv.ask(["fe_add", st, [ser(c) for c in b]])
                    except astio.Unser:
                        st = None
            return s, st

        def rand_cons():
            r = rng.random()
            if r < 0.06:
                return claripy.true()
            if r < 0.10:
                return claripy.false()
            c = rng.choice(forms)()
            if rng.random() < 0.15:
                c = claripy.And(c, rng.choice(forms)())
            return c

        def rand_batches(shared):
            bs = []
            for _ in range(rng.randrange(0, 4)):
                b = [rng.choice(shared) if (shared and rng.random() < 0.4) else rand_cons() for _ in range(rng.randrange(1, 4))]
                bs.append(b)
            return bs

        def rand_cond():
            r = rng.random()
            if r < 0.25:
                return rng.choice([u.b, claripy.Not(u.b)])
            if r < 0.35:
                return rng.choice([claripy.true(), claripy.false()])
            return rng.choice(forms)()

        classes = [("Solver", claripy.Solver, True), ("SolverCacheless", claripy.SolverCacheless, True),
                   ("SolverComposite", claripy.SolverComposite, False)]
        iters = 600 if tier == "quick" else 6000
        # targeted: constant merge conditions and participants that hold a concrete False (found by the thorough tier:
        # the composite's merged .constraints lost the False that makes it unsatisfiable)
        for cname, cls, _m in classes:
            if fail:
                break
            for conds_t, falses in ((("F", "c", "c"), (1, 2)), (("F", "c"), (1,)), (("F",), ()), (("c", "F", "c"), (0,)), (("T", "F"), (0,))):
                parts, want_terms = [], []
                conds = []
                for j, ct in enumerate(conds_t):
                    sj = cls()
                    cs = [rng.choice(forms[:16])() for _ in range(2)]
                    if j in falses:
                        cs.insert(1, claripy.false())
                    for c_ in cs:
                        sj.add(c_)
                    cond = claripy.false() if ct == "F" else claripy.true() if ct == "T" else rng.choice(forms[:16])()
                    parts.append(sj)
                    conds.append(cond)
                    want_terms.append(claripy.And(cond, *cs))
                ctx = {"class": cname, "operation": "merge (targeted: constant conditions / unsatisfiable participants)",
                       "solvers": [[str(c) for c in p_.constraints] for p_ in parts], "conditions": [str(c) for c in conds]}
                try:
                    _, merged = parts[0].merge(parts[1:], conds)
                    stats["merge_targeted_" + cname] += 1
                    got, expect = mset(merged.constraints), mset([claripy.Or(*want_terms)])
                    if got != expect:
                        bad("merge: the merged constraints have a different model set (%d models, expected %d)" % (len(got), len(expect)),
                            merged=[str(c) for c in merged.constraints], **ctx)
                        break
                    if merged.satisfiable() != bool(expect):
                        bad("merge: satisfiable() of the merged solver is %s, enumeration says %s" % (merged.satisfiable(), bool(expect)), **ctx)
                        break
                except claripy.errors.ClaripyError as ex:
                    bad("merge raised %s" % type(ex).__name__, **ctx)
                    break
        for it in range(iters):
            if fail:
                break
            rep.count(case_key=("it", seed, it))
            cname, cls, modelled = rng.choice(classes)
            shared = [rand_cons() for _ in range(3)]
            k = rng.randrange(1, 5)
            kind = rng.choice(["merge", "merge", "merge_ancestor", "combine", "split", "split"])
            if cname == "SolverComposite" and kind == "merge" and rng.random() < 0.6:
                k = rng.choice([3, 4])
            ctx = {"class": cname, "operation": kind, "iteration": it}
            try:
                if kind == "merge":
                    sol = []
                    if rng.random() < 0.3:
                        # participants that share an untouched child: branches of one base constrained on z only, extended on x/y,
                        # next to unrelated solvers that do not constrain z
                        zc = rng.choice([lambda: u.z == rng.getrandbits(3), lambda: claripy.ULT(u.z, rng.randrange(1, 7)), lambda: u.z != 0])
                        xy = [f for f in forms[:16]]
                        base, bst = mk_solver(cls, [[zc()]])
                        k = rng.choice([2, 3, 3, 4])
                        for j in range(k):
                            if j < 2 or rng.random() < 0.3:
                                nb = base.branch()
                                added[id(nb)] = (nb, list(added[id(base)][1]))
                                st2 = bst
                            else:
                                nb, st2 = mk_solver(cls, [])
                            batch = [rng.choice(xy)() for _ in range(rng.randrange(1, 3))]
                            nb.add(list(batch))
                            added[id(nb)][1].extend(batch)
                            if st2 is not None:
                                try:
                                    st2 = drv.ask(["fe_add", st2, [ser(c) for c in batch]])
                                except astio.Unser:
                                    st2 = None
                            sol.append((nb, st2))
                        rng.shuffle(sol)
                    for _ in range(k - len(sol)):
                        if sol and rng.random() < 0.5:
                            # a branch of an earlier participant, extended afterwards (shares children / history with it)
                            base, bst = rng.choice(sol)
                            nb = base.branch()
                            added[id(nb)] = (nb, list(added[id(base)][1]))
                            for batch in rand_batches(shared)[:2]:
                                nb.add(list(batch))
                                added[id(nb)][1].extend(batch)
                                if bst is not None:
                                    try:
                                        bst = drv.ask(["fe_add", bst, [ser(c) for c in batch]])
                                    except astio.Unser:
                                        bst = None
                            sol.append((nb, bst))
                        else:
                            sol.append(mk_solver(cls, rand_batches(shared)))
                    conds = [rand_cond() for _ in range(k)]
                    if k > 1 and rng.random() < 0.3:
                        conds[1] = conds[0]
                    ctx.update(solvers=[[str(c) for c in s.constraints] for s, _ in sol], conditions=[str(c) for c in conds])
                    _, merged = sol[0][0].merge([s for s, _ in sol[1:]], conds)
                    stats["merge_" + cname] += 1
                    expect = frozenset().union(*[mset([conds[i]] + added[id(sol[i][0])][1]) for i in range(k)])
                    got = mset(merged.constraints)
                    if got != expect:
                        i = next(iter(got ^ expect))
                        bad("merge: the merged constraints have a different model set (%d models, expected %d)" % (len(got), len(expect)),
                            merged=[str(c) for c in merged.constraints], witness_assignment_index=i, **ctx)
                    if modelled and all(st is not None for _, st in sol):
                        try:
                            m = drv.ask(["fe_merge", [st for _, st in sol], [ser(c) for c in conds]])
                            if m[0] == "ok":
                                corr("merge", m[1], merged, ctx)
                            else:
                                stats["model_merge_" + str(m[1])] += 1
                        except astio.Unser:
                            pass
                    answers_ok("merge", merged, expect, ctx)
                elif kind == "merge_ancestor":
                    anc, ast_ = mk_solver(cls, rand_batches(shared))
                    if rng.random() < 0.5:
                        anc.satisfiable()
                    branches = []
                    for _ in range(k):
                        b = anc.branch()
                        for batch in rand_batches(shared)[:2]:
                            b.add(batch)
                        branches.append(b)
                    conds = [rand_cond() for _ in range(k)]
                    anc_cons = list(added[id(anc)][1])
                    ctx.update(ancestor=[str(c) for c in anc_cons], conditions=[str(c) for c in conds])
                    _, merged = branches[0].merge(branches[1:], conds, common_ancestor=anc)
                    stats["merge_ancestor_" + cname] += 1
                    expect = mset(anc_cons) & frozenset().union(*[mset([c]) for c in conds])
                    got = mset(merged.constraints)
                    if got != expect:
                        bad("merge with common ancestor: model set differs (%d models, expected %d)" % (len(got), len(expect)),
                            merged=[str(c) for c in merged.constraints], **ctx)
                    if modelled and ast_ is not None:
                        try:
                            m = drv.ask(["fe_merge_anc", ast_, [ser(c) for c in conds]])
                            if m[0] == "ok":
                                corr("merge_ancestor", m[1], merged, ctx)
                        except astio.Unser:
                            pass
                    answers_ok("merge_ancestor", merged, expect, ctx)
                    if mset(anc.constraints) != mset(anc_cons):
                        bad("merge with common ancestor changed the ancestor", **ctx)
                elif kind == "combine":
                    sol = [mk_solver(cls, rand_batches(shared)) for _ in range(k)]
                    ctx.update(solvers=[[str(c) for c in s.constraints] for s, _ in sol])
                    comb = sol[0][0].combine([s for s, _ in sol[1:]])
                    stats["combine_" + cname] += 1
                    expect = ALL
                    for s, _ in sol:
                        expect = expect & mset(added[id(s)][1])
                    got = mset(comb.constraints)
                    if got != expect:
                        bad("combine: model set differs (%d models, expected %d)" % (len(got), len(expect)),
                            combined=[str(c) for c in comb.constraints], **ctx)
                    if modelled and all(st is not None for _, st in sol):
                        corr("combine", drv.ask(["fe_combine", [st for _, st in sol]]), comb, ctx)
                    answers_ok("combine", comb, expect, ctx)
                else:
                    batches = rand_batches(shared) + rand_batches(shared)
                    # a constraint linking two groups, added after them
                    if rng.random() < 0.5:
                        batches.append([rng.choice([lambda: u.x == u.y, lambda: claripy.ULT(u.x, u.z.zero_extend(1)),
                                                    lambda: u.b == (u.y == 3), lambda: claripy.ULT(u.z, 2) == u.b])()])
                    s, st = mk_solver(cls, batches)
                    cons = list(s.constraints)
                    if mset(cons) != mset(added[id(s)][1]):
                        bad("the solver's constraint list is not equivalent to what was added", **ctx)
                    ctx.update(constraints=[str(c) for c in cons])
                    parts = s.split()
                    stats["split_" + cname] += 1
                    flat = []
                    for c in cons:
                        flat.extend(c.args if c.op == "And" else [c])
                    pcs = [list(p.constraints) for p in parts]
                    got_multi = collections.Counter(c.hash() for pc in pcs for c in pc)
                    want_multi = collections.Counter(c.hash() for c in flat)
                    if cname != "SolverComposite":
                        # the filter/deduplicator of the receiving solver may drop concrete True and repeated conjuncts:
                        # every other conjunct must be in exactly one part, and nothing else
                        def is_t(c):
                            return c.op == "BoolV" and c.args[0] is True
                        got_set = collections.Counter(c.hash() for pc in pcs for c in pc if not is_t(c))
                        want_set = {c.hash() for c in flat if not is_t(c)}
                        if set(got_set) != want_set or any(v != 1 for v in got_set.values()):
                            bad("split: the parts do not contain every conjunct exactly once", parts=[[str(c) for c in pc] for pc in pcs], **ctx)
                    vsets = [frozenset().union(*[c.variables for c in pc]) if pc else frozenset() for pc in pcs]
                    for i in range(len(vsets)):
                        for j in range(i + 1, len(vsets)):
                            if vsets[i] & vsets[j]:
                                bad("split: two parts share a variable", parts=[[str(c) for c in pc] for pc in pcs],
                                    shared=sorted(vsets[i] & vsets[j]), **ctx)
                    expect = mset(cons)
                    got = ALL
                    for pc in pcs:
                        got = got & mset(pc)
                    if got != expect:
                        bad("split: the parts together are not equivalent to the solver (%d models, expected %d)" % (len(got), len(expect)),
                            parts=[[str(c) for c in pc] for pc in pcs], **ctx)
                    if modelled and st is not None:
                        try:
                            m = drv.ask(["fe_split_fe", st])
                            stats["model_split"] += 1
                            mm = sorted(sorted(json.dumps(astio.norm(x)) for x in p[0]) for p in m)
                            rr = sorted(sorted(json.dumps(ser(c)) for c in pc) for pc in pcs)
                            if mm != rr and mismatch is None:
                                mismatch = {"kind": "model/implementation mismatch", "operation": "split", "model": mm, "real": rr, "input": ctx}
                        except astio.Unser:
                            pass
                    for p, pc in zip(parts, pcs):
                        # each part answers for its own constraints
                        answers_ok("split part", p, mset(pc), ctx)
                        if fail:
                            break
            except claripy.errors.ClaripyError as ex:
                bad("%s raised %s: %s" % (kind, type(ex).__name__, ex), **ctx)
            added.clear()
            if len(u._cache) > 6000:
                u._cache.clear()
    rep.cov["rule"] = ("per iteration: 1-4 solvers (Solver, SolverCacheless, SolverComposite) filled by batched adds from a pool of 29 constraint "
                       "forms over x,y:BV4 z:BV3 b:Bool plus concrete True/False, conjunctions and constraints shared between solvers; merge with "
                       "overlapping/duplicated/constant conditions, merge with a common ancestor (branches extended after branching), combine, "
                       "split (with a late constraint linking two groups).  The resulting constraint lists are compared with the extracted model "
                       "(not for SolverComposite) and their model sets, satisfiable() and eval() are judged against all 4096 assignments")
    rep.cov["histogram"] = dict(stats)
    rep.cov["traces_validated_against_impl"] = sum(v for k, v in stats.items() if k.startswith("model_")) if not mismatch else 0
    if fail:
        rep.violation(fail)
    elif not proof_ok or mismatch or drv is None:
        rep.violation({"broken": {"obligations_not_discharged": [o for o in pr["obligations"] if not o["ok"]], "forbidden": forb,
                                  "model_mismatch": mismatch, "driver": None if okd else dlog[-800:],
                                  "coq_log_tail": pr.get("log", "")[-1200:]},
                       "note": "theorem or correspondence no longer checks; the enumeration test found no wrong result"},
                      found_input=False)
    if drv:
        drv.close()
    rep.cov["trusted_base"] = KERNEL_TB + [
        "Print Assumptions of Props/C15.v theorems: Closed under the global context",
        "Model/Frontend.v is hand-written (ConstrainedFrontend + filter/deduplicator mixins) and tied by comparing constraint lists; "
        "SolverComposite's merge/combine/split, Z3, the caches and simplify() are NOT modelled (enumeration test only)",
        "reference of the direct test: enumeration with the extracted SMT-LIB evaluator (Model/Ast.v eval)",
    ]
    rep.assumptions = ["as many merge conditions as solvers (zip silently ignores a surplus)", "Z3 answers truthfully"]
    return rep.finish("proof")
