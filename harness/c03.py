"""C03: string operations mean the same folded and solved, for every character.

Proof: Props/C03.v over Model/Str.v -- the concrete folding functions are the SMT-LIB string operations.
Tie: the extracted model runs next to the real functions of backend_concrete/strings.py on strings over an alphabet with
NUL, backslash, quotes, regex metacharacters, newline, Latin-1 and non-BMP-free Unicode code points, and boundary indices.
Search: every concrete fold is compared with the solver's evaluation of the same operation on symbolic strings pinned to
the constants (so the constant travels into Z3 and the value back), and with Python string semantics written out
independently.
"""
from __future__ import annotations

import collections
import json
import random
import sys

from common import KERNEL_TB, REPO, Driver, Report, build_driver, check_props, coq_make, known_findings, regen_all, scan_forbidden
from c01 import BV_DRIVER

PROP = "C03"
ALPHA = ["a", "b", "ab", "0", "7", "9", "+", "-", " ", "_", ".", "*", "(", ")", "[", "\\", "$", "^", "\n", "\x00", "\"", "'", "é", "ÿ", "日", "\\u{41}", "\\x41", "%"]
M64 = (1 << 64) - 1


def rand_str(rng, maxlen=6):
    return "".join(rng.choice(ALPHA) for _ in range(rng.randrange(0, maxlen)))


def cps(s):
    return [ord(c) for c in s]


def ref(op, args):
    """SMT-LIB semantics written directly on Python strings (independent of both the model and claripy)"""
    if op == "StrConcat":
        return "".join(args)
    if op == "StrSubstr":
        st, cnt, s = args
        return s[st:st + cnt] if (0 <= st < len(s) and cnt > 0) else ""
    if op == "StrReplace":
        s, p, r = args
        i = s.find(p)
        return s if i < 0 else s[:i] + r + s[i + len(p):]
    if op == "StrLen":
        return len(args[0])
    if op == "StrContains":
        return any(args[0][i:i + len(args[1])] == args[1] for i in range(len(args[0]) + 1))
    if op == "StrPrefixOf":
        return args[1][:len(args[0])] == args[0]
    if op == "StrSuffixOf":
        return len(args[0]) <= len(args[1]) and args[1][len(args[1]) - len(args[0]):] == args[0]
    if op == "StrIndexOf":
        s, t, i = args
        if i > len(s):
            return M64
        for k in range(i, len(s) + 1):
            if s[k:k + len(t)] == t:
                return k
        return M64
    if op == "StrToInt":
        s = args[0]
        if s and all(c in "0123456789" for c in s):
            return int(s) & M64
        return M64
    if op == "IntToStr":
        return str(args[0])
    raise KeyError(op)


def main(tier, seed, replay=None):
    sys.path.insert(0, REPO)
    import claripy
    import claripy.backends.backend_concrete.strings as cs
    from claripy.backends.backend_concrete.bv import BVV as CBVV
    rep = Report(PROP, tier, seed)
    rng = random.Random(seed)
    if replay:
        r = json.load(open(replay))
        print("replay file records:", json.dumps(r, default=str)[:1500])
        return 1
    regen_all()
    ok_make, log = coq_make(["Proofs/StrSound.vo"])
    pr = check_props(PROP) if ok_make else {"ok": False, "obligations": [
        {"name": "C03_*", "closed": False, "axioms": ["<does not compile>"], "ok": False}], "log": log[-3000:]}
    rep.obligations(pr, "make Proofs/StrSound.vo && coqc -R coq CV coq/Props/C03.v (Print Assumptions)")
    forb = scan_forbidden()
    proof_ok = pr["ok"] and not forb
    okd, dlog = build_driver(*BV_DRIVER)
    stats = collections.Counter()
    kf = {f["site"]: f for f in known_findings(PROP)}
    fail = mismatch = None
    drv = Driver("bvdriver") if okd else None

    def bad(what, **kw):
        nonlocal fail
        if fail is None:
            fail = {"what": what}
            fail.update({k: (v if isinstance(v, (int, list, dict, type(None))) else repr(v)) for k, v in kw.items()})

    def gen_case():
        op = rng.choice(["StrConcat", "StrSubstr", "StrReplace", "StrLen", "StrContains", "StrPrefixOf", "StrSuffixOf", "StrIndexOf", "StrToInt", "IntToStr"])
        s = rand_str(rng)
        sub = rng.choice([rand_str(rng, 3), s[rng.randrange(len(s) + 1):][:rng.randrange(4)] if s else "", ""])
        if op == "StrConcat":
            return op, [rand_str(rng, 4) for _ in range(rng.randrange(1, 4))]
        if op == "StrSubstr":
            return op, [rng.choice([0, 1, len(s), len(s) + 1, max(0, len(s) - 1), rng.randrange(8), M64, 1 << 63]), rng.choice([0, 1, 2, len(s), 100, M64, rng.randrange(6)]), s]
        if op == "StrReplace":
            return op, [s + rng.choice(["", sub]) + rng.choice(["", sub]), sub, rand_str(rng, 3)]
        if op == "StrLen":
            return op, [s]
        if op in ("StrContains",):
            return op, [s, sub]
        if op in ("StrPrefixOf", "StrSuffixOf"):
            return op, [sub, s]
        if op == "StrIndexOf" and rng.random() < 0.35:
            # overlapping occurrences: "ana" in "banana", "aa" in "aaaa"
            u1, u2 = rng.choice(["a", "ab", "\\", "."]), rng.choice(["n", "b", "", "("])
            t = u1 + u2 + u1
            base = rng.choice(["", "b", "x"]) + (u1 + u2) * rng.randrange(2, 4) + u1 + rng.choice(["", "z"])
            return op, [base, t, rng.randrange(0, len(base) + 2)]
        if op == "StrIndexOf":
            base = s + rng.choice(["", sub]) + s[:2] + rng.choice(["", sub])
            return op, [base, sub, rng.choice([0, 1, 2, len(base), len(base) + 1, len(base) + 5, rng.randrange(8)])]
        if op == "StrToInt":
            return op, [rng.choice([s, str(rng.randrange(10 ** rng.randrange(1, 22))), "007", "+5", "-5", " 12", "1_0", "", "12a", "٣", "1" * 25])]
        return op, [rng.choice([0, 1, 9, 10, 99, 12345, (1 << 63), M64, rng.getrandbits(64)])]

    def real_concrete(op, args):
        f = getattr(cs, op)
        conv = []
        for a in args:
            conv.append(cs.StringV(a) if isinstance(a, str) else CBVV(a, 64))
        r = f(*conv)
        if isinstance(r, cs.StringV):
            return r.value
        if isinstance(r, bool):
            return r
        return r.value

    def model(op, args):
        m = {"StrSubstr": lambda: ["str", "substr", args[0], args[1], cps(args[2])], "StrReplace": lambda: ["str", "replace"] + [cps(a) for a in args],
             "StrLen": lambda: ["str", "len", cps(args[0])], "StrContains": lambda: ["str", "contains", cps(args[0]), cps(args[1])],
             "StrPrefixOf": lambda: ["str", "prefixof", cps(args[0]), cps(args[1])], "StrSuffixOf": lambda: ["str", "suffixof", cps(args[0]), cps(args[1])],
             "StrIndexOf": lambda: ["str", "indexof", cps(args[0]), cps(args[1]), args[2]], "StrToInt": lambda: ["str", "to_int", cps(args[0])],
             "IntToStr": lambda: ["str", "from_int", args[0]]}
        if op == "StrConcat":
            return "".join(args)
        r = drv.ask(m[op]())
        if op in ("StrSubstr", "StrReplace", "IntToStr"):
            return "".join(chr(int(c)) for c in r)
        if op in ("StrContains", "StrPrefixOf", "StrSuffixOf"):
            return r == "1"
        return int(r)

    if drv is not None:
        n = 400 if tier == "quick" else 20000
        for it in range(n):
            if fail or mismatch:
                break
            op, args = gen_case()
            rep.count(("case", op, tuple(map(repr, args))))
            try:
                rc = real_concrete(op, args)
            except Exception as ex:  # noqa
                bad("concrete %s raised %s" % (op, type(ex).__name__), args=args)
                break
            stats["concrete_" + op] += 1
            want = ref(op, args)
            if rc != want:
                bad("concrete %s differs from the SMT-LIB meaning" % op, args=args, claripy=rc, smtlib=want)
                break
            md = model(op, args)
            if md != rc:
                mismatch = {"kind": "model/implementation mismatch", "function": op, "args": repr(args), "model": repr(md), "real": repr(rc)}
                break
        # folded vs solved
        m = 40 if tier == "quick" else 1200
        for it in range(m):
            if fail:
                break
            op, args = gen_case()
            if op in ("StrToInt", "IntToStr") and rng.random() < 0.5:
                continue
            # keep indices small for the solver
            args = [a if isinstance(a, str) else (a if a < 1000 else rng.randrange(8)) for a in args]
            f = getattr(claripy, op)
            conc_args, sym_args, pins = [], [], []
            for i, a in enumerate(args):
                if isinstance(a, str):
                    v = claripy.StringV(a)
                    sv = claripy.StringS("cs%d" % i)
                    pins.append(sv == v)
                else:
                    v = claripy.BVV(a, 64)
                    sv = claripy.BVS("ci%d" % i, 64)
                    pins.append(sv == v)
                conc_args.append(v)
                sym_args.append(sv)
            try:
                folded = f(*conc_args)
                s = claripy.Solver(timeout=20000)
                s.add(pins)
                solved = s.eval(f(*sym_args), 1)[0]
                fv = s.eval(folded, 1)[0]
            except claripy.errors.ClaripySolverInterruptError:
                stats["solver_timeout"] += 1
                continue
            except Exception as ex:  # noqa
                bad("%s raised %s: %s" % (op, type(ex).__name__, str(ex)[:150]), args=args)
                break
            stats["solved_" + op] += 1
            want = ref(op, args)
            if solved != fv or fv != want:
                bad("%s: folded %r, solved %r, SMT-LIB %r" % (op, fv, solved, want), args=args)
                break
    rep.cov["rule"] = ("10 operations (concat, substr, replace, len, contains, prefixof, suffixof, indexof, to_int, from_int) on strings over an alphabet "
                       "with NUL, backslash, quotes, regex metacharacters, newline, Latin-1 and CJK code points and escape-like text, with indices at "
                       "0, len, len+1, 2^63, 2^64-1 and patterns that occur 0/1/2 times or are empty: real concrete function = independent SMT-LIB "
                       "reference = extracted model; then folded value = solver value on symbolic operands pinned to the constants")
    rep.cov["histogram"] = dict(stats)
    rep.cov["traces_validated_against_impl"] = sum(v for k, v in stats.items() if k.startswith("concrete_")) if not mismatch else 0
    if fail:
        rep.violation(fail)
    elif not proof_ok or mismatch or drv is None:
        rep.violation({"broken": {"obligations_not_discharged": [o for o in pr["obligations"] if not o["ok"]], "forbidden": forb,
                                  "model_mismatch": mismatch, "driver": None if okd else dlog[-800:],
                                  "coq_log_tail": pr.get("log", "")[-1200:]},
                       "note": "theorem or correspondence no longer checks; no disagreement between fold, solver and SMT-LIB was found"}, found_input=False)
    if drv:
        drv.close()
    rep.cov["trusted_base"] = KERNEL_TB + [
        "Print Assumptions of Props/C03.v theorems: Closed under the global context",
        "Model/Str.v renders the Python built-ins used by strings.py (slicing, replace(p, r, 1), in, startswith, endswith, index, isdigit/int, "
        "str) as list functions by hand; it is tied by comparing outputs. Z3's string theory, the conversion of constants and symbolic strings "
        "are NOT modelled (tests only)",
    ]
    rep.assumptions = ["Z3's sequence theory implements SMT-LIB strings"]
    return rep.finish("proof")
