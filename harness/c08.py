"""C08: substitution, canonicalisation and the ITE utilities preserve meaning.

Proof: Props/C08.v over Model/Rewrite.v (replace_dict/replace, ite_cases, ite_dict, reverse_ite_cases, chop, get_bytes,
excavate_ite), for every expression, map, case list and assignment.
Tie: the extracted model is run next to the real functions and the results compared structurally.
Search: every real result is also judged directly against the enumeration of all 4096 assignments of x,y:BV4 z:BV3 b:Bool
(extracted SMT-LIB evaluator), including the functions that have no theorem (canonicalize, identical, burrow_ite).
"""
from __future__ import annotations

import collections
import json
import random
import sys

from common import KERNEL_TB, REPO, Driver, Report, build_driver, check_props, coq_make, known_findings, regen_all, scan_forbidden
from c01 import BV_DRIVER

PROP = "C08"


class Gen:
    def __init__(self, c, u, rng):
        self.c, self.u, self.rng = c, u, rng
        self.b2 = c.BoolS("ub2", explicit_name=True)

    def bv(self, w, d):
        c, u, rng = self.c, self.u, self.rng
        if w not in (3, 4):
            return c.ZeroExt(w - 4, self.bv(4, d)) if w > 4 else self.bv(4, d)[w - 1:0]
        if d <= 0 or rng.random() < 0.15:
            r = rng.random()
            if r < 0.7:
                return rng.choice([u.x, u.y]) if w == 4 else u.z
            return c.BVV(rng.choice([0, 1, (1 << w) - 1, rng.getrandbits(w)]), w)
        k = rng.random()
        if k < 0.45:
            op = rng.choice(["__add__", "__sub__", "__mul__", "__and__", "__or__", "__xor__", "__lshift__", "LShR", "__rshift__"])
            a, b = self.bv(w, d - 1), self.bv(w, d - 1)
            return getattr(c.ast.BV, op)(a, b) if op != "LShR" else c.LShR(a, b)
        if k < 0.65:
            return c.If(self.bool(d - 1), self.bv(w, d - 1), self.bv(w, d - 1))
        if k < 0.75:
            return rng.choice([lambda a: -a, lambda a: ~a])(self.bv(w, d - 1))
        if k < 0.88:
            if w == 4:
                return rng.choice([c.ZeroExt, c.SignExt])(1, self.bv(3, d - 1))
            return c.Extract(rng.choice([2, 3]), rng.choice([0, 1]), self.bv(4, d - 1)) if False else self.bv(4, d - 1)[2:0]
        return self.bv(w, d - 1)

    def bool(self, d):
        c, u, rng = self.c, self.u, self.rng
        if d <= 0 or rng.random() < 0.15:
            r = rng.random()
            return u.b if r < 0.7 else (c.true() if r < 0.85 else c.false())
        k = rng.random()
        if k < 0.55:
            w = rng.choice([4, 4, 3])
            op = rng.choice(["__eq__", "__ne__", "ULT", "ULE", "UGT", "UGE", "SLT", "SLE", "SGT", "SGE"])
            a, b = self.bv(w, d - 1), self.bv(w, d - 1)
            return getattr(c, op)(a, b) if op[0] != "_" else (a == b if op == "__eq__" else a != b)
        if k < 0.75:
            return rng.choice([c.And, c.Or])(self.bool(d - 1), self.bool(d - 1))
        if k < 0.85:
            return c.Not(self.bool(d - 1))
        return c.If(self.bool(d - 1), self.bool(d - 1), self.bool(d - 1))

    def any(self, d):
        return self.bool(d) if self.rng.random() < 0.3 else self.bv(self.rng.choice([4, 4, 3]), d)

    def like(self, e, d):
        return self.bool(d) if isinstance(e, self.c.ast.Bool) else self.bv(e.length, d)


def subexprs(c, e):
    out, seen, st = [], set(), [e]
    while st:
        a = st.pop()
        if a.hash() in seen:
            continue
        seen.add(a.hash())
        out.append(a)
        st.extend(x for x in a.args if isinstance(x, c.ast.Base))
    return out


# index arithmetic of the enumeration: idx = ((x*16 + y)*8 + z)*2 + b
def decode(i):
    b = i & 1
    i >>= 1
    z = i & 7
    i >>= 3
    y = i & 15
    x = i >> 4
    return x, y, z, b


def encode(x, y, z, b):
    return ((x * 16 + y) * 8 + z) * 2 + (1 if b else 0)


def canon_ser(s, ren=None):
    """own canonical renaming of a serialised tree: variables numbered by first occurrence (depth first, left to right)"""
    ren = {} if ren is None else ren

    def go(t):
        if t[0] == "BVS":
            k = ("bv", t[1], t[2])
            ren.setdefault(k, len(ren))
            return ["BVS", ren[k], t[2]]
        if t[0] == "BoolS":
            k = ("bool", t[1])
            ren.setdefault(k, len(ren))
            return ["BoolS", ren[k]]
        if t[0] == "N":
            return ["N", t[1], t[2], [go(a) for a in t[3]], t[4]]
        return t
    return go(s)


def rename_ser(s, sigma):
    if s[0] == "BVS":
        return ["BVS", sigma.get(("bv", s[1]), s[1]), s[2]]
    if s[0] == "BoolS":
        return ["BoolS", sigma.get(("bool", s[1]), s[1])]
    if s[0] == "N":
        return ["N", s[1], s[2], [rename_ser(a, sigma) for a in s[3]], s[4]]
    return s


def main(tier, seed, replay=None):
    sys.path.insert(0, REPO)
    import astio
    import claripy
    import solverhist
    rep = Report(PROP, tier, seed)
    rng = random.Random(seed)
    if replay:
        r = json.load(open(replay))
        print("replay file records:", json.dumps(r, default=str)[:1500])
        return 1
    regen_all()
    ok_make, log = coq_make(["Proofs/RewriteSound.vo"])
    pr = check_props(PROP) if ok_make else {"ok": False, "obligations": [
        {"name": "C08_*", "closed": False, "axioms": ["<does not compile>"], "ok": False}], "log": log[-3000:]}
    rep.obligations(pr, "make Proofs/RewriteSound.vo && coqc -R coq CV coq/Props/C08.v (Print Assumptions)")
    forb = scan_forbidden()
    proof_ok = pr["ok"] and not forb
    okd, dlog = build_driver(*BV_DRIVER)
    stats = collections.Counter()
    kf = {f["site"]: f for f in known_findings(PROP)}
    fail = mismatch = None
    drv = Driver("bvdriver") if okd else None
    if drv is not None:
        u = solverhist.Universe(claripy, drv, tag="u")
        names = u.names
        for k in range(64):
            names.ids["canonical_%d" % k] = -(k + 1)
        g = Gen(claripy, u, rng)
        vars_ = {"x": u.x, "y": u.y, "z": u.z, "b": u.b}
        N = u.n_assign

        def ser(e):
            return astio.ser(e, names)

        def model(cmd):
            """-> ('ok', normed) | ('unmodelled',) | ('other', raw)"""
            r = drv.ask(cmd)
            if r[0] == "ok":
                return ("ok", astio.norm(r[1]))
            if r[0] == "err" and r[1] == "Unmodelled":
                return ("unmodelled",)
            return ("other", r)

        def corr(kind, cmd, real_ser, ctx):
            nonlocal mismatch
            m = model(cmd)
            stats["model_" + kind + "_" + m[0]] += 1
            if m[0] == "ok" and m[1] != real_ser and mismatch is None:
                mismatch = {"kind": "model/implementation mismatch", "function": kind, "model": m[1], "real": real_ser, "input": ctx}
            if m[0] == "other" and mismatch is None:
                mismatch = {"kind": "model raised where the implementation answered", "function": kind, "model": m[1], "input": ctx}

        def bad(kind, what, **kw):
            nonlocal fail
            d = {"function": kind, "what": what}
            d.update({k: (str(v) if not isinstance(v, (int, list, dict, type(None))) else v) for k, v in kw.items()})
            site = kw.get("site")
            if site and site in kf:
                rep.known(kf[site], what + " -- " + kf[site]["text"][:140])
                return
            if fail is None:
                fail = d

        iters = 140 if tier == "quick" else 6000
        for it in range(iters):
            if fail:
                break
            rep.count(case_key=("it", seed, it))
            # ---------- A/B: replace, replace_dict ----------
            e = g.any(rng.choice([2, 3, 4]))
            subs = subexprs(claripy, e)
            old = rng.choice([u.x, u.y, u.z, u.b, rng.choice(subs), rng.choice(subs)])
            new = g.like(old, rng.choice([0, 1, 2]))
            try:
                r = claripy.replace(e, old, new)
            except claripy.errors.ClaripyError:
                r = None
            except Exception as ex:  # noqa
                bad("replace", "raised %s" % type(ex).__name__, e=e, old=old, new=new)
                r = None
            if r is not None:
                stats["replace"] += 1
                try:
                    corr("replace", ["replace", ser(e), ser(old), ser(new)], ser(r), {"e": str(e), "old": str(old), "new": str(new)})
                except astio.Unser:
                    pass
                ve, vo, vn, vr = u.values(e), u.values(old), u.values(new), u.values(r)
                if old.op in ("BVS", "BoolS"):
                    nm = old.args[0][1:]
                    for i in range(N):
                        x, y, z, b = decode(i)
                        d = {"x": x, "y": y, "z": z, "b": b}
                        d[nm] = vn[i]
                        if vr[i] != ve[encode(d["x"], d["y"], d["z"], d["b"])]:
                            bad("replace", "value of replace(e, var, t) differs from e with var bound to t", e=e, old=old, new=new, result=r,
                                assignment=dict(zip("xyzb", decode(i))))
                            break
                else:
                    for i in range(N):
                        if vo[i] == vn[i] and vr[i] != ve[i]:
                            bad("replace", "old and new agree under this assignment but e and replace(e, old, new) differ", e=e, old=old, new=new,
                                result=r, assignment=dict(zip("xyzb", decode(i))))
                            break
            # simultaneous substitution of several variables
            ks = rng.sample(["x", "y", "z", "b"], rng.choice([2, 3]))
            mp = {k: g.like(vars_[k], rng.choice([0, 1, 2])) for k in ks}
            if rng.random() < 0.4:
                # images that are keys themselves (swap), on an expression containing the same shape over both variables
                mp = {"x": u.y, "y": u.x} if rng.random() < 0.7 else {"x": u.y, "y": g.bv(4, 1)}
                t1 = g.any(rng.choice([1, 2, 3]))
                t2 = claripy.replace_dict(t1, {u.x.hash(): u.y, u.y.hash(): u.x}) if rng.random() < 0.8 else g.like(t1, 2)
                if isinstance(t1, claripy.ast.Bool):
                    e = rng.choice([claripy.And, claripy.Or, lambda a, b: a == b, lambda a, b: claripy.If(u.b, a, b)])(t1, t2)
                else:
                    e = rng.choice([lambda a, b: a * b, lambda a, b: a - b, lambda a, b: claripy.ULT(a, b),
                                    lambda a, b: claripy.If(u.b, a, b), lambda a, b: claripy.Concat(a, b)])(t1, t2)
            try:
                r = claripy.replace_dict(e, {vars_[k].hash(): v for k, v in mp.items()})
            except Exception as ex:  # noqa
                bad("replace_dict", "raised %s" % type(ex).__name__, e=e, map={k: str(v) for k, v in mp.items()})
                r = None
            if r is not None:
                stats["replace_dict"] += 1
                try:
                    corr("replace_dict", ["subst", [[ser(vars_[k]), ser(v)] for k, v in mp.items()], [], ser(e)], ser(r),
                         {"e": str(e), "map": {k: str(v) for k, v in mp.items()}})
                except astio.Unser:
                    pass
                ve, vr = u.values(e), u.values(r)
                vm = {k: u.values(v) for k, v in mp.items()}
                for i in range(N):
                    d = dict(zip("xyzb", decode(i)))
                    for k in vm:
                        d[k] = vm[k][i]
                    if vr[i] != ve[encode(d["x"], d["y"], d["z"], d["b"])]:
                        bad("replace_dict", "value differs from e with the variables bound to their images", e=e,
                            map={k: str(v) for k, v in mp.items()}, result=r, assignment=dict(zip("xyzb", decode(i))))
                        break
            # ---------- C: canonicalize ----------
            try:
                vm_, cnt, canon = e.canonicalize()
                stats["canonicalize"] += 1
                se = ser(e)
                sigma, images = {}, []
                for lf in e.leaf_asts():
                    if lf.op in ("BVS", "BoolS") and lf.hash() in vm_:
                        nv = vm_[lf.hash()]
                        sigma[("bv" if lf.op == "BVS" else "bool", names.id(lf.args[0]))] = names.id(nv.args[0])
                if len(set(sigma.values())) != len(sigma):
                    bad("canonicalize", "two variables renamed to the same canonical variable", e=e, canon=canon)
                elif ser(canon) != rename_ser(se, sigma):
                    bad("canonicalize", "result is not the original with variables renamed", e=e, canon=canon)
                m = drv.ask(["canon", se])
                if m[0] == "ok":
                    stats["model_canon_ok"] += 1
                    mm = [int(m[1][0]), astio.norm(m[1][1])]
                    if mm != [cnt, ser(canon)] and mismatch is None:
                        mismatch = {"kind": "model/implementation mismatch", "function": "canonicalize", "model": mm, "real": [cnt, ser(canon)], "input": str(e)}
            except astio.Unser:
                pass
            # ---------- D: identical ----------
            f = rng.choice([g.like(e, 2), claripy.replace(e, u.x, u.y), claripy.replace(e, u.y, u.x), e,
                            claripy.replace_dict(e, {u.x.hash(): u.y, u.y.hash(): u.x})])
            try:
                same = e.identical(f)
                stats["identical"] += 1
                if same and canon_ser(ser(e)) != canon_ser(ser(f)):
                    bad("identical", "identical(a, b) is True for expressions that are not renamings of each other: a=%s b=%s" % (e, f),
                        site="BV.identical" if isinstance(e, claripy.ast.BV) else None, a=e, b=f)
                if same:
                    stats["identical_true"] += 1
            except astio.Unser:
                pass
            except claripy.errors.ClaripyError:
                pass
            # ---------- E: ite_cases ----------
            w = rng.choice([4, 4, 3, -1])
            val = (lambda d: g.bool(d)) if w == -1 else (lambda d: g.bv(w, d))
            cases = [(g.bool(rng.choice([0, 1, 2])), val(rng.choice([0, 0, 1]))) for _ in range(rng.randrange(0, 6))]
            if cases and rng.random() < 0.3:
                cases.append((g.bool(1), cases[0][1]))
            default = val(rng.choice([0, 1]))
            if cases and rng.random() < 0.3:
                cases[-1] = (cases[-1][0], default)
            try:
                r = claripy.ite_cases(cases, default)
            except Exception as ex:  # noqa
                bad("ite_cases", "raised %s" % type(ex).__name__, cases=[(str(a), str(b)) for a, b in cases], default=default)
                r = None
            if r is not None:
                stats["ite_cases"] += 1
                try:
                    corr("ite_cases", ["ite_cases", [[ser(a), ser(b)] for a, b in cases], ser(default)], ser(r),
                         {"cases": [(str(a), str(b)) for a, b in cases], "default": str(default)})
                except astio.Unser:
                    pass
                vr, vd = u.values(r), u.values(default)
                vc = [(u.values(a), u.values(b)) for a, b in cases]
                for i in range(N):
                    want = next((vb[i] for va, vb in vc if va[i] is True), vd[i])
                    if vr[i] != want:
                        bad("ite_cases", "value is not that of the first case whose condition holds", cases=[(str(a), str(b)) for a, b in cases],
                            default=default, result=r, assignment=dict(zip("xyzb", decode(i))))
                        break
            # ---------- G: reverse_ite_cases ----------
            t = r if (r is not None and rng.random() < 0.6) else g.any(3)
            try:
                rc = list(claripy.reverse_ite_cases(t))
            except Exception as ex:  # noqa
                bad("reverse_ite_cases", "raised %s" % type(ex).__name__, ast=t)
                rc = None
            if rc is not None:
                stats["reverse_ite_cases"] += 1
                try:
                    corr("reverse_ite_cases", ["rev_ite", ser(t)], [[ser(a), ser(b)] for a, b in rc], {"ast": str(t)})
                except astio.Unser:
                    pass
                vt = u.values(t)
                vc = [(u.values(a), u.values(b)) for a, b in rc]
                for i in range(N):
                    hold = [vb[i] for va, vb in vc if va[i] is True]
                    if hold != [vt[i]]:
                        bad("reverse_ite_cases", "not exactly one reported case holds with the value of the expression", ast=t,
                            cases=[(str(a), str(b)) for a, b in rc], assignment=dict(zip("xyzb", decode(i))), holding=hold, value=vt[i])
                        break
            # ---------- F: ite_dict ----------
            idx = rng.choice([u.x, u.y, g.bv(4, 1), g.bv(4, 2)])
            wide = rng.random() < 0.25
            pool = list(range(16)) if not wide else list(range(-8, 40))
            keys = rng.sample(pool, rng.randrange(0, 10))
            dct = {k: val(rng.choice([0, 0, 1])) for k in keys}
            default = val(0)
            try:
                r = claripy.ite_dict(idx, dct, default)
            except Exception as ex:  # noqa
                bad("ite_dict", "raised %s" % type(ex).__name__, i=idx, keys=keys)
                r = None
            if r is not None:
                stats["ite_dict" + ("_wide_keys" if wide else "")] += 1
                try:
                    corr("ite_dict", ["ite_dict", ser(idx), [[k, ser(v)] for k, v in dct.items()], ser(default)], ser(r),
                         {"i": str(idx), "dict": {k: str(v) for k, v in dct.items()}, "default": str(default)})
                except astio.Unser:
                    pass
                vr, vi, vd = u.values(r), u.values(idx), u.values(default)
                vv = {k: u.values(v) for k, v in dct.items()}
                ambiguous = len({k % 16 for k in keys}) != len(keys)
                for i in range(N):
                    hit = [k for k in keys if k % 16 == vi[i]]
                    if ambiguous and len(hit) > 1:
                        continue
                    want = vv[hit[0]][i] if hit else vd[i]
                    if vr[i] != want:
                        bad("ite_dict", "value is not d[i] (or the default)", site=("ite_dict.keys_out_of_range" if any(not 0 <= k < 16 for k in keys) else None),
                            i=idx, dict={k: str(v) for k, v in dct.items()}, default=default, result=r,
                            assignment=dict(zip("xyzb", decode(i))))
                        break
            # ---------- H: chop, get_bytes ----------
            ch = rng.choice([g.bv(4, 2), claripy.Concat(g.bv(4, 1), g.bv(4, 1)), claripy.Concat(g.bv(4, 1), g.bv(3, 1), g.bv(4, 0))])
            L = ch.length
            bits = rng.choice([b for b in (1, 2, 4, 8, 11, L) if L % b == 0])
            try:
                parts = ch.chop(bits)
                stats["chop"] += 1
                vch = u.values(ch)
                vp = [u.values(p) for p in parts]
                if len(parts) != L // bits or any(p.length != bits for p in parts):
                    bad("chop", "wrong number or width of chunks", e=ch, bits=bits)
                else:
                    for i in range(N):
                        acc = 0
                        for v in vp:
                            acc = (acc << bits) | v[i]
                        if acc != vch[i]:
                            bad("chop", "concatenating the chunks (most significant first) does not give the value", e=ch, bits=bits,
                                assignment=dict(zip("xyzb", decode(i))))
                            break
                m = drv.ask(["chop", ser(ch), bits])
                if m[0] == "ok":
                    stats["model_chop_ok"] += 1
                    if astio.norm(m[1]) != [ser(p) for p in parts] and mismatch is None:
                        mismatch = {"kind": "model/implementation mismatch", "function": "chop", "input": [str(ch), bits], "model": m[1]}
            except astio.Unser:
                pass
            except Exception as ex:  # noqa
                bad("chop", "raised %s" % type(ex).__name__, e=ch, bits=bits)
            nbytes = (L + 7) // 8
            index = rng.randrange(nbytes)
            size = rng.randrange(1, nbytes - index + 1)
            try:
                gb = ch.get_bytes(index, size)
                stats["get_bytes"] += 1
                vch, vg = u.values(ch), u.values(gb)
                if gb.length != size * 8:
                    bad("get_bytes", "result is not size*8 bits wide", e=ch, index=index, size=size, width=gb.length)
                else:
                    for i in range(N):
                        want = (vch[i] >> (8 * (nbytes - index - size))) & ((1 << (8 * size)) - 1)
                        if vg[i] != want:
                            bad("get_bytes", "bytes differ from the big-endian slice of the value", e=ch, index=index, size=size,
                                assignment=dict(zip("xyzb", decode(i))), got=vg[i], want=want)
                            break
                m = model(["get_bytes", ser(ch), index, size])
                stats["model_get_bytes_" + m[0]] += 1
                if m[0] == "ok" and m[1] != ser(gb) and mismatch is None:
                    mismatch = {"kind": "model/implementation mismatch", "function": "get_bytes", "input": [str(ch), index, size], "model": m[1]}
            except astio.Unser:
                pass
            except Exception as ex:  # noqa
                bad("get_bytes", "raised %s" % type(ex).__name__, e=ch, index=index, size=size)
            # ---------- I: excavate_ite, burrow_ite ----------
            t = g.any(rng.choice([2, 3, 4]))
            for fn, nm in ((claripy.excavate_ite, "excavate_ite"), (claripy.burrow_ite, "burrow_ite")):
                try:
                    r = fn(t)
                except Exception as ex:  # noqa
                    bad(nm, "raised %s" % type(ex).__name__, e=t)
                    continue
                stats[nm] += 1
                if u.values(r) != u.values(t):
                    i = next(i for i in range(N) if u.values(r)[i] != u.values(t)[i])
                    bad(nm, "result is not equivalent to the argument", e=t, result=r, assignment=dict(zip("xyzb", decode(i))))
                if nm == "excavate_ite":
                    try:
                        corr("excavate_ite", ["excavate", ser(t)], ser(r), {"e": str(t)})
                    except astio.Unser:
                        pass
            if len(u._cache) > 4000:
                u._cache.clear()
    rep.cov["rule"] = ("per iteration: random expressions over x,y:BV4 z:BV3 b:Bool (depth <= 4; arithmetic, bitwise, shifts, comparisons, "
                       "If, extension, extraction, concatenation); replace with variable and sub-expression keys, replace_dict with 2-3 "
                       "variable keys whose images mention the other keys, canonicalize, identical on renamings and non-renamings, "
                       "ite_cases (0-5 cases, repeated values, value equal to the default), ite_dict (0-9 keys; a quarter with keys outside "
                       "0..15), reverse_ite_cases, chop, get_bytes, excavate_ite, burrow_ite; each result is compared with the extracted model "
                       "(structurally) and judged against all 4096 assignments.  distinct = iterations")
    rep.cov["histogram"] = dict(stats)
    rep.cov["traces_validated_against_impl"] = sum(v for k, v in stats.items() if k.startswith("model_") and k.endswith("_ok")) if not mismatch else 0
    if fail:
        rep.violation(fail)
    elif not proof_ok or mismatch or drv is None:
        rep.violation({"broken": {"obligations_not_discharged": [o for o in pr["obligations"] if not o["ok"]], "forbidden": forb,
                                  "model_mismatch": mismatch, "driver": None if okd else dlog[-800:],
                                  "coq_log_tail": pr.get("log", "")[-1200:]},
                       "note": "theorem or correspondence no longer checks; the direct test against enumeration found no wrong result"},
                      found_input=False)
    if drv:
        drv.close()
    rep.cov["trusted_base"] = KERNEL_TB + [
        "Print Assumptions of Props/C08.v theorems: Closed under the global context",
        "Model/Rewrite.v is hand-written and tied by structural comparison of results; rules of the construction model marked "
        "Unmodelled (Extract/Concat simplifiers...) make the model abstain: those inputs are covered by the direct test only",
        "no theorem for canonicalize, identical, burrow_ite (direct test only); annotations are not modelled",
        "reference of the direct test: enumeration with the extracted SMT-LIB evaluator (Model/Ast.v eval)",
    ]
    rep.assumptions = ["object identity is structural equality (hash-consing, C06)", "replacement keys and images have the same width"]
    return rep.finish("proof")
