"""C22: strided-interval joins, meets, widening and queries agree with their members (see sicheck.py)."""
import sicheck

PROP = "C22"


def main(tier, seed, replay=None):
    return sicheck.run(
        PROP, tier, seed, replay, "Proofs/SISound.vo",
        "(1) model vs real: union on every pair, pseudo_join(smart_join=False) on a third of them, least_upper_bound of 3-4 operands, cardinality, max/min/eval(1,3,40) in both signednesses on every interval of the fixed "
        "domain, the model's member list against the definition; "
        "(2) sweep of the real union/least_upper_bound/pseudo_join/widen (result contains every member of both operands), "
        "least_upper_bound of three and four intervals (every triple at width 2, samples at widths 3 and 4), "
        "intersection (contains every common member) on all pairs of width 1,2, width 3 (all pairs in thorough), fixed samples "
        "at width 4 and 5..64 bits; eval (signed and unsigned: members only, no repeats, complete when n allows, at most n), "
        "min/max in both signednesses, cardinality, solution(v) for every v (width <= 6) on every interval of width 1..4 and "
        "sampled wider ones.  distinct = (operation,input) evaluations that passed",
        ["Print Assumptions of Props/C22.v theorems: Closed under the global context",
         "proved: cardinality = number of members; member list = gamma; pseudo_join (either flag) and least_upper_bound of any number sound; unsigned min exact, unsigned eval lists "
         "members only, max/min bound every member (either signedness).  meet, widening, solution are NOT "
         "modelled and are only tested by the sweep"],
        ["gamma as in C21"])
