"""C17: a solver stays correct after a backend timeout or interrupt.

Proof: Props/C17.v over Model/Z3Stack.v -- for every number of requested values and every sequence of check outcomes
(wherever a check gives up) BackendZ3._batch_eval leaves the Z3 assertion stack as it found it.
Tie: real _batch_eval calls on real Z3 solvers with give-ups injected at chosen positions; number of scopes and of
assertions before and after against the extracted model.
Search: random solver histories in which the k-th solver check of an operation gives up (z3_solver_sat is wrapped at run
time, no source hook): the operation must raise a claripy error, and every later answer of the same solver and of its
branches is compared with enumeration.
"""
from __future__ import annotations

import collections
import json
import random
import sys

from common import KERNEL_TB, REPO, Driver, Report, build_driver, check_props, coq_make, known_findings, regen_all, scan_forbidden
from c01 import BV_DRIVER

PROP = "C17"


class Injector:
    def __init__(self, bz3, claripy):
        self.bz3, self.claripy = bz3, claripy
        self.orig = bz3.z3_solver_sat
        self.countdown = None
        self.fired = False
        self.calls = 0
        self.script = None    # explicit outcomes for the stack correspondence

    def __call__(self, solver, extra_constraints, occasion):
        self.calls += 1
        if self.script is not None:
            o = self.script.pop(0) if self.script else "0"
            if o == "x":
                self.fired = True
                raise self.claripy.errors.ClaripySolverInterruptError("timeout")
            return self.orig(solver, extra_constraints, occasion)
        if self.countdown is not None:
            if self.countdown == 0:
                self.countdown = None
                self.fired = True
                raise self.claripy.errors.ClaripySolverInterruptError("timeout")
            self.countdown -= 1
        return self.orig(solver, extra_constraints, occasion)

    def arm(self, k):
        self.countdown, self.fired = k, False

    def disarm(self):
        self.countdown = None


def main(tier, seed, replay=None):
    sys.path.insert(0, REPO)
    import claripy
    import claripy.backends.backend_z3 as bz3
    import solverhist
    rep = Report(PROP, tier, seed)
    rng = random.Random(seed)
    if replay:
        r = json.load(open(replay))
        print("replay file records:", json.dumps(r, default=str)[:1500])
        return 1
    regen_all()
    ok_make, log = coq_make(["Proofs/Z3StackSound.vo"])
    pr = check_props(PROP) if ok_make else {"ok": False, "obligations": [
        {"name": "C17_*", "closed": False, "axioms": ["<does not compile>"], "ok": False}], "log": log[-3000:]}
    rep.obligations(pr, "make Proofs/Z3StackSound.vo && coqc -R coq CV coq/Props/C17.v (Print Assumptions)")
    forb = scan_forbidden()
    proof_ok = pr["ok"] and not forb
    okd, dlog = build_driver(*BV_DRIVER)
    stats = collections.Counter()
    kf = {f["site"]: f for f in known_findings(PROP)}
    fail = mismatch = None
    drv = Driver("bvdriver") if okd else None
    inj = Injector(bz3, claripy)
    if drv is not None:
        bz3.z3_solver_sat = inj
        try:
            # ---------- (0) the frame discipline of _batch_eval ----------
            import z3
            backend = claripy.backends.z3
            for it in range(60 if tier == "quick" else 2000):
                x = claripy.BVS("fx%d" % (it % 3), 4, explicit_name=True)
                solver = backend.solver()
                backend.add(solver, [claripy.ULT(x, rng.choice([1, 2, 3, 5, 16]))])
                nfr = rng.choice([0, 1, 2])
                for _ in range(nfr):
                    solver.push()
                    backend.add(solver, [x != rng.randrange(16)])
                n = rng.choice([1, 2, 3, 4, 6])
                give_up_at = rng.choice([None, 0, 1, 2, 3])
                script = []
                for k in range(n + 1):
                    script.append("x" if give_up_at == k else "1")
                inj.script = list(script)
                before = (solver.num_scopes(), len(solver.assertions()))
                real_out = None
                try:
                    vals = backend._batch_eval([backend.convert(x)], n, solver=solver)
                    real_out = str(len(vals))
                except claripy.errors.ClaripySolverInterruptError:
                    real_out = "gaveup"
                finally:
                    used = len(script) - len(inj.script)
                    inj.script = None
                after = (solver.num_scopes(), len(solver.assertions()))
                # the outcomes the real run actually saw: sat for every value found, then unsat or the give-up
                seen = []
                found = 0 if real_out == "gaveup" else int(real_out)
                for k in range(used):
                    seen.append("x" if (give_up_at == k) else "1")
                if real_out != "gaveup" and found < n:
                    seen = ["1"] * found + ["0"]
                m = drv.ask(["z3_batch_eval", n, seen, ["0"] * (before[0] + 1)])
                stats["batch_eval_runs"] += 1
                rep.count(("stack", seed, it))
                model_depth = len(m[1]) - 1
                if after != before:
                    fail = {"what": "_batch_eval left the Z3 solver changed: %d scopes / %d assertions before, %d / %d after" % (before + after),
                            "n": n, "check_that_gives_up": give_up_at}
                    break
                if model_depth != after[0] or (m[0] == "gaveup") != (real_out == "gaveup"):
                    mismatch = {"kind": "model/implementation mismatch", "function": "_batch_eval", "n": n, "outcomes": seen, "model": m,
                                "real": [real_out, after]}
                    break
            # ---------- (1) histories with give-ups at every position ----------
            class FaultChecker(solverhist.Checker):
                def step(self):
                    armed = rng.random() < 0.4
                    prev = self.fail
                    nlog = len(self.log)
                    if armed:
                        inj.arm(rng.choice([0, 0, 1, 1, 2, 3, 5]))
                    try:
                        super().step()
                    finally:
                        fired = inj.fired
                        inj.disarm()
                        inj.fired = False
                    if armed and fired:
                        stats["give_ups_injected"] += 1
                        what = (self.fail or {}).get("what", "") if self.fail is not prev else ""
                        if self.fail is not prev and ("ClaripySolverInterruptError" in what):
                            self.fail = prev          # the operation raised, as it must
                            stats["raised_as_required"] += 1
                        elif self.fail is prev:
                            last = self.log[-1] if len(self.log) > nlog else "?"
                            if "branch" in last or "add(" in last or "simplify" in last or "downsize" in last or "split" in last:
                                return
                            self.bad("the operation returned an answer although one of its solver checks gave up", operation=last)

            facs = [("Solver", lambda: claripy.Solver()), ("SolverCacheless", lambda: claripy.SolverCacheless()),
                    ("SolverComposite", lambda: claripy.SolverComposite())]
            n_hist = 250 if tier == "quick" else 5000
            for k in range(n_hist):
                if fail:
                    break
                label, factory = rng.choice(facs)
                u = solverhist.Universe(claripy, drv, tag="c17%d_" % (k % 7))
                ch = FaultChecker(u, rng, factory(), label, max_solvers=4)
                for _ in range(16):
                    ch.step()
                    if ch.fail:
                        break
                rep.count(("hist", label, tuple(ch.log)), nontrivial=len(ch.log) >= 4)
                stats["histories"] += 1
                if ch.fail:
                    w = ch.fail.get("what", "")
                    site = "swallowed_give_up" if "although one of its solver checks gave up" in w else None
                    if site and site in kf:
                        rep.known(kf[site], w + " -- " + kf[site]["text"][:140])
                        continue
                    fail = ch.fail
        finally:
            bz3.z3_solver_sat = inj.orig
    rep.cov["rule"] = ("(0) real _batch_eval on real Z3 solvers with 0-2 frames already pushed, n in 1..6 and a give-up injected at check 0..3: scopes and "
                       "assertions before/after against the extracted model; (1) 16-step histories of Solver/SolverCacheless/SolverComposite (add, "
                       "queries with and without extra constraints, branch, simplify) in which 40% of the operations have their k-th solver check "
                       "(k in 0..5) give up: the operation must raise, and every later answer of the solver and its branches is compared with "
                       "enumeration of all 4096 assignments")
    rep.cov["histogram"] = dict(stats)
    rep.cov["traces_validated_against_impl"] = stats["batch_eval_runs"] if not mismatch else 0
    if fail:
        rep.violation(fail)
    elif not proof_ok or mismatch or drv is None:
        rep.violation({"broken": {"obligations_not_discharged": [o for o in pr["obligations"] if not o["ok"]], "forbidden": forb,
                                  "model_mismatch": mismatch, "driver": None if okd else dlog[-800:],
                                  "coq_log_tail": pr.get("log", "")[-1200:]},
                       "note": "theorem or correspondence no longer checks; no wrong answer after a give-up was found"}, found_input=False)
    if drv:
        drv.close()
    rep.cov["trusted_base"] = KERNEL_TB + [
        "Print Assumptions of Props/C17.v theorems: Closed under the global context",
        "Model/Z3Stack.v covers the push/pop discipline of _batch_eval only; _extrema uses assumptions (no frames); the frontends' caches "
        "are NOT modelled and are tested by fault injection (run-time wrapper of z3_solver_sat, no source hook)",
    ]
    rep.assumptions = ["a give-up surfaces as ClaripySolverInterruptError from z3_solver_sat (timeouts are injected, not provoked)"]
    return rep.finish("proof")
