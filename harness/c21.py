"""C21: strided-interval transfer functions are sound (see sicheck.py)."""
import sicheck

PROP = "C21"


def main(tier, seed, replay=None):
    return sicheck.run(
        PROP, tier, seed, replay, "Proofs/SISound.vo",
        "(1) model vs real StridedInterval: add, sub, _wrapped_overflow_add, the eight order comparisons on every pair of the fixed domain, "
        "neg, bitwise_not, zero_extend, _unsigned_bounds, _signed_bounds and the "
        "constructor/normalize on every interval, raw constructor arguments, and each helper translated from the source against "
        "the real static method; (2) soundness sweep of the real add/sub/mul/udiv/sdiv/mod/and/or/xor/shl/lshr/ashr, the nine "
        "comparisons, concat, neg/-/not, zero/sign extension and extraction: all intervals of width 1,2 (all pairs), width 3 "
        "(all pairs in the thorough tier, a fixed sample in quick), fixed samples at width 4 and at 5..64 bits, plus "
        "seed-dependent pairs; each result must contain f(x,y) for every member pair (members enumerated from the definition; "
        "at most 40 sampled per operand when larger).  distinct = (operation,input) evaluations that passed",
        ["Print Assumptions of Props/C21.v theorems: Closed under the global context",
         "proved: add, sub, neg, bitwise_not, zero_extend (all operands; stride 0 only for single values), normalize, the eight "
         "order comparisons (all operands); every other transfer function is NOT modelled and is only tested by the sweep",
         "tools/py2coq.py translates the integer helpers (_modular_add/_modular_sub/max_int/_wrapped_cardinality...) on every "
         "run; Model/SI.v (record-level operations) is hand-written and tied by exact result comparison",
         "names, the uninitialized flag and reversed intervals are not modelled"],
        ["operands have the same width (normalize_types' agnostic_extend is not modelled)",
         "gamma: lb + k*stride (mod 2^bits) while k*stride <= (ub - lb) mod 2^bits, which is what eval() lists"])
