"""Solver histories against a brute-force reference (shared by C11, C12, C13, C14, C16, C17, C26).

The reference enumerates every assignment of the (small) variable universe with the extracted SMT-LIB
evaluator (driver command `enum`), so it shares nothing with claripy's solving code."""
from __future__ import annotations

import itertools
import random

import astio


class Universe:
    """x, y : BV4, z : BV3, b : Bool -- 2^12 assignments."""

    def __init__(self, claripy, drv, tag="u"):
        self.c = claripy
        self.drv = drv
        self.names = astio.Names()
        self.x = claripy.BVS(tag + "x", 4, explicit_name=True)
        self.y = claripy.BVS(tag + "y", 4, explicit_name=True)
        self.z = claripy.BVS(tag + "z", 3, explicit_name=True)
        self.b = claripy.BoolS(tag + "b", explicit_name=True)
        self.bvvars = [(self.names.id(v.args[0]), v.length) for v in (self.x, self.y, self.z)]
        self.boolvars = [self.names.id(self.b.args[0])]
        self.n_assign = (1 << 4) * (1 << 4) * (1 << 3) * 2
        self._cache = {}

    def values(self, expr):
        """tuple of the values of expr under every assignment (ints / bools), in enumeration order"""
        h = expr.hash()
        if h not in self._cache:
            s = astio.ser(expr, self.names)
            out = self.drv.ask(["enum", [s], self.bvvars, self.boolvars])
            vals = []
            for item in out.split(";"):
                item = item.strip()
                if not item:
                    continue
                vals.append(True if item == "T" else False if item == "F" else None if item == "N" else int(item))
            assert len(vals) == self.n_assign, (len(vals), self.n_assign)
            self._cache[h] = tuple(vals)
        return self._cache[h]

    def models(self, constraints):
        """indices of the assignments satisfying all constraints"""
        idx = range(self.n_assign)
        for c in constraints:
            v = self.values(c)
            idx = [i for i in idx if v[i] is True]
        return list(idx)

    def feasible(self, constraints, expr):
        v = self.values(expr)
        return sorted(set(v[i] for i in self.models(constraints)), key=lambda t: (isinstance(t, bool), t))


def constraint_pool(u, rng):
    c = u.c
    x, y, z, b = u.x, u.y, u.z, u.b
    k = lambda w=4: c.BVV(rng.getrandbits(w), w)
    forms = [
        lambda: x == k(), lambda: x != k(), lambda: y == k(), lambda: c.ULT(x, k()), lambda: c.UGT(y, k()),
        lambda: c.SLE(x, k()), lambda: c.SGT(x, y), lambda: x + y == k(), lambda: x * y == k(), lambda: (x & y) != 0,
        lambda: x ^ y == k(), lambda: c.Or(x == k(), x == k()), lambda: c.Or(x == 1, x == 15), lambda: c.ULE(x, y),
        lambda: c.And(c.UGE(x, k()), c.ULE(x, k())), lambda: z == k(3), lambda: c.ULT(z, k(3)), lambda: b,
        lambda: c.Not(b), lambda: b == c.ULT(x, y), lambda: c.If(b, x, y) == k(), lambda: x - y == k(),
        lambda: c.LShR(x, 1) == k(), lambda: (x << 1) == k(), lambda: x % 3 == 1, lambda: c.ZeroExt(1, z)[3:0] == x,
        lambda: c.Concat(x, y) == c.BVV(rng.getrandbits(8), 8), lambda: c.SignExt(1, z) == x, lambda: x // c.BVV(3, 4) == 2,
        # division and remainder by a variable (SMT-LIB: x/0 is all ones, x%0 is x): concrete evaluation of these raises
        lambda: x // y == k(), lambda: x % y == k(), lambda: c.SDiv(x, y) == k(), lambda: y // c.ZeroExt(1, z) == k(),
        lambda: c.SMod(x, y) == k(),
    ]
    return forms


def expr_pool(u, rng):
    c = u.c
    x, y, z = u.x, u.y, u.z
    return [x, y, z, x + y, x * 2, x ^ y, x & y, x - y, c.If(u.b, x, y), c.LShR(x, 1), x | 8, c.ZeroExt(1, z), x * y, ~x,
            c.Concat(z, u.x[0:0])]


def tosigned(v, w):
    return v - (1 << w) if v >= (1 << (w - 1)) else v


class Checker:
    """Runs one history on a solver object and checks every answer against the reference."""

    OPS = ["add", "add", "add", "satisfiable", "eval", "eval", "batch_eval", "min", "max", "min", "max",
           "solution", "is_true", "simplify", "downsize", "branch", "eval_bool"]

    def __init__(self, u, rng, solver, label, ops=None, max_solvers=4, invariant=None):
        self.max_solvers = max_solvers
        self.invariant = invariant
        self.u, self.rng, self.label = u, rng, label
        self.ops = ops or self.OPS
        self.solvers = [(solver, [])]     # (solver, constraints added so far): branches are appended
        self.recent_q = []                # Boolean queries are re-used: cached answers need the same expression again
        self.recent_e = []
        self.log = []
        self.fail = None

    def targeted_extra(self, s):
        """an extra constraint excluding one cached model of the solver (cached answers filtered by extras are the
        classic place for stale answers); peeks at the model cache only to aim the generator"""
        try:
            models = list(getattr(s, "_models", ()))
            if not models:
                return None
            m = self.rng.choice(models).model
            byname = {self.u.x.args[0]: self.u.x, self.u.y.args[0]: self.u.y, self.u.z.args[0]: self.u.z}
            names = [n for n in m if n in byname]
            if not names:
                return None
            n = self.rng.choice(names)
            return [byname[n] != m[n]]
        except Exception:  # noqa
            return None

    def pick_q(self, forms):
        if self.recent_q and self.rng.random() < 0.6:
            return self.rng.choice(self.recent_q)
        q = self.rng.choice(forms)()
        self.recent_q = (self.recent_q + [q])[-3:]
        return q

    def pick_e(self, exprs):
        if self.recent_e and self.rng.random() < 0.5:
            return self.rng.choice(self.recent_e)
        e = self.rng.choice(exprs)
        self.recent_e = (self.recent_e + [e])[-3:]
        return e

    def record(self, what):
        self.log.append(what)

    def bad(self, msg, **kw):
        if self.fail is None:
            self.fail = dict(kw, what=msg, solver=self.label, history=list(self.log))

    def step(self):
        c = self.u.c
        rng = self.rng
        si = rng.randrange(len(self.solvers))
        s, cs = self.solvers[si]
        forms, exprs = constraint_pool(self.u, rng), expr_pool(self.u, rng)
        extra = [rng.choice(forms)()] if rng.random() < 0.3 else []
        if rng.random() < 0.25:
            extra = self.targeted_extra(s) or extra
        allc = cs + extra
        op = rng.choice(self.ops)
        pre = "s%d." % si
        try:
            if op == "add":
                con = rng.choice(forms)()
                self.record(pre + "add(%s)" % con)
                s.add(con)
                cs.append(con)
            elif op == "satisfiable":
                self.record(pre + "satisfiable(extra=%s)" % extra)
                r = s.satisfiable(extra_constraints=extra)
                want = bool(self.u.models(allc))
                if r != want:
                    self.bad("satisfiable() is %s, reference %s" % (r, want), constraints=[str(x) for x in cs], extra=[str(x) for x in extra])
            elif op == "eval_bool":
                q = self.pick_q(forms)
                n = rng.choice([1, 2, 3, 3])
                self.record(pre + "eval(%s, %d, extra=%s)" % (q, n, extra))
                r = list(s.eval(q, n, extra_constraints=extra))
                feas = self.u.feasible(allc, q)
                if not feas:
                    self.bad("eval returned %s on unsatisfiable constraints" % r, constraints=[str(x) for x in cs], extra=[str(x) for x in extra])
                elif any(v not in feas for v in r) or len(set(r)) != len(r) or len(r) < min(n, len(feas)):
                    self.bad("eval of a Boolean returned %s, feasible %s (n=%d)" % (r, feas, n), constraints=[str(x) for x in cs],
                             extra=[str(x) for x in extra], expr=str(q))
            elif op in ("eval", "batch_eval"):
                e = self.pick_e(exprs)
                n = rng.choice([1, 2, 3, 5, 20])
                feas = self.u.feasible(allc, e)
                self.record(pre + "%s(%s, %d, extra=%s)" % (op, e, n, extra))
                if op == "eval":
                    r = list(s.eval(e, n, extra_constraints=extra))
                else:
                    e2 = rng.choice(exprs)
                    rr = s.batch_eval([e, e2], n, extra_constraints=extra)
                    # reference for pairs
                    v1, v2 = self.u.values(e), self.u.values(e2)
                    feas = sorted(set((v1[i], v2[i]) for i in self.u.models(allc)))
                    r = [tuple(t) for t in rr]
                if not feas:
                    self.bad("%s returned %s on unsatisfiable constraints (UnsatError expected)" % (op, r),
                             constraints=[str(x) for x in cs], extra=[str(x) for x in extra])
                else:
                    if any(v not in feas for v in r):
                        self.bad("%s returned an infeasible value" % op, returned=r, feasible=feas[:40],
                                 constraints=[str(x) for x in cs], extra=[str(x) for x in extra], expr=str(e))
                    if len(set(r)) != len(r):
                        self.bad("%s returned duplicates" % op, returned=r)
                    if len(r) > n:
                        self.bad("%s returned more than n results" % op, returned=r, n=n)
                    if len(r) < min(n, len(feas)):
                        self.bad("%s returned %d results but %d exist (n=%d)" % (op, len(r), len(feas), n), returned=r,
                                 feasible=feas[:40], constraints=[str(x) for x in cs], extra=[str(x) for x in extra], expr=str(e))
            elif op in ("min", "max"):
                e = self.pick_e(exprs)
                signed = rng.random() < 0.4
                self.record(pre + "%s(%s, signed=%s, extra=%s)" % (op, e, signed, extra))
                r = getattr(s, op)(e, extra_constraints=extra, signed=signed)
                feas = self.u.feasible(allc, e)
                if not feas:
                    self.bad("%s returned %s on unsatisfiable constraints" % (op, r), constraints=[str(x) for x in cs], extra=[str(x) for x in extra])
                else:
                    w = e.length
                    key = (lambda v: tosigned(v, w)) if signed else (lambda v: v)
                    want = (min if op == "min" else max)(feas, key=key)
                    if (r & ((1 << w) - 1)) != want:
                        self.bad("%s(signed=%s) returned %s, true optimum %s" % (op, signed, r, want), feasible=feas[:40],
                                 constraints=[str(x) for x in cs], extra=[str(x) for x in extra], expr=str(e))
            elif op == "solution":
                e = self.pick_e(exprs)
                v = rng.getrandbits(e.length)
                self.record(pre + "solution(%s, %d, extra=%s)" % (e, v, extra))
                r = s.solution(e, v, extra_constraints=extra)
                feas = self.u.feasible(allc, e)
                if r != (v in feas):
                    self.bad("solution(%s,%d) is %s, reference %s" % (e, v, r, v in feas), constraints=[str(x) for x in cs],
                             extra=[str(x) for x in extra])
            elif op == "is_true":
                q = self.pick_q(forms)
                self.record(pre + "is_true/is_false(%s, extra=%s)" % (q, extra))
                t, f = s.is_true(q, extra_constraints=extra), s.is_false(q, extra_constraints=extra)
                vq = self.u.values(q)
                ms = self.u.models(allc)
                if t and any(vq[i] is not True for i in ms):
                    self.bad("is_true(%s) claimed but it fails in a model" % q, constraints=[str(x) for x in cs], extra=[str(x) for x in extra])
                if f and any(vq[i] is not False for i in ms):
                    self.bad("is_false(%s) claimed but it holds in a model" % q, constraints=[str(x) for x in cs], extra=[str(x) for x in extra])
            elif op == "simplify":
                self.record(pre + "simplify()")
                before = set(self.u.models(cs))
                s.simplify()
                after = set(self.u.models(list(s.constraints)))
                if before != after:
                    self.bad("simplify() changed the models of the constraint set", before=len(before), after=len(after),
                             constraints=[str(x) for x in cs], now=[str(x) for x in s.constraints])
            elif op == "downsize":
                self.record(pre + "downsize()")
                s.downsize()
            elif op == "branch" and len(self.solvers) < self.max_solvers:
                self.record(pre + "branch()")
                self.solvers.append((s.branch(), list(cs)))
            elif op == "combine" and len(self.solvers) < self.max_solvers:
                sj = rng.randrange(len(self.solvers))
                o, ocs = self.solvers[sj]
                self.record(pre + "combine([s%d])" % sj)
                self.solvers.append((s.combine([o]), list(cs) + list(ocs)))
            elif op == "merge" and len(self.solvers) < self.max_solvers:
                js = [rng.randrange(len(self.solvers)) for _ in range(rng.choice([0, 1, 1, 2]))]
                conds = [rng.choice(forms + [lambda: self.u.b, lambda: c.Not(self.u.b)])() for _ in range(len(js) + 1)]
                self.record(pre + "merge(%s, %s)" % (["s%d" % j for j in js], conds))
                _, m = s.merge([self.solvers[j][0] for j in js], conds)
                parts = [cs] + [self.solvers[j][1] for j in js]
                self.solvers.append((m, [c.Or(*[c.And(v, *p) for v, p in zip(conds, parts)])]))
            elif op == "split":
                self.record(pre + "split()")
                s.split()
            elif op == "pickle":
                import pickle
                self.record(pre + "pickle round trip")
                self.solvers[si] = (pickle.loads(pickle.dumps(s)), cs)
            if self.invariant is not None and self.fail is None:
                for k, (sk, csk) in enumerate(self.solvers):
                    msg = self.invariant(self.u, sk, csk)
                    if msg:
                        self.bad("after %s: solver s%d: %s" % (self.log[-1] if self.log else "start", k, msg),
                                 constraints=[str(x) for x in csk])
                        break
        except c.errors.UnsatError:
            if self.u.models(allc):
                self.bad("UnsatError raised on satisfiable constraints by %s" % self.log[-1], constraints=[str(x) for x in cs],
                         extra=[str(x) for x in extra])
        except c.errors.ClaripyZeroDivisionError:
            self.record("  -> ClaripyZeroDivisionError")
        except c.errors.ClaripyError as ex:
            self.bad("claripy error %s by %s" % (type(ex).__name__, self.log[-1]), error=str(ex))
        except Exception as ex:  # noqa
            self.bad("exception %s by %s" % (type(ex).__name__, self.log[-1]), error=repr(ex))


def run_histories(claripy, drv, rng, solver_factories, n_hist, steps, report=None, tag="h", ops=None, max_solvers=4, invariant=None):
    """-> first failure (dict) or None; counts into report"""
    fail = None
    for k in range(n_hist):
        label, factory = rng.choice(solver_factories)
        u = Universe(claripy, drv, tag="%s%d_" % (tag, k % 7))
        ch = Checker(u, rng, factory(), label, ops=ops, max_solvers=max_solvers, invariant=invariant)
        for _ in range(steps):
            ch.step()
            if ch.fail:
                break
        if report is not None:
            report.count(("hist", label, tuple(ch.log)), nontrivial=len(ch.log) >= 4)
            if len(report.cov["samples"]) < 4:
                report.sample({"solver": label, "history": ch.log[:10]})
        if ch.fail and fail is None:
            fail = ch.fail
            break
    return fail


def cache_scenarios(claripy, drv, rng, solver_factories, n, report=None, tag="cs", bool_only=False):
    """Aimed at answers served from caches: exhaust an expression with eval, then ask every query again with
    extra constraints that exclude one cached model at a time (and without extras), checking each answer
    against the reference."""
    for k in range(n):
        label, factory = rng.choice(solver_factories)
        u = Universe(claripy, drv, tag="%s%d_" % (tag, k % 7))
        ch = Checker(u, rng, factory(), label)
        s, cs = ch.solvers[0]
        forms, exprs = constraint_pool(u, rng), expr_pool(u, rng)
        c = claripy
        try:
            for _ in range(rng.randrange(0, 3)):
                con = rng.choice(forms)()
                ch.record("s0.add(%s)" % con)
                s.add(con)
                cs.append(con)
            if not u.models(cs):
                continue
            q = rng.choice(forms)()
            e = rng.choice(exprs)
            ch.record("s0.eval(%s, 3)" % q)
            s.eval(q, 3)
            if not bool_only:
                ch.record("s0.eval(%s, 20)" % e)
                s.eval(e, 20)
            byname = {u.x.args[0]: u.x, u.y.args[0]: u.y, u.z.args[0]: u.z}
            extras = [[]]
            for m in list(getattr(s, "_models", ()))[:6]:
                for nme, val in m.model.items():
                    if nme in byname:
                        extras.append([byname[nme] != val])
            rng.shuffle(extras)
            # phase 2 (after the extras round): add constraints that kill cached models one at a time and ask again
            followups = []
            for _ in range(2):
                tgt = [x for x in extras if x]
                followups.append(rng.choice(tgt)[0] if tgt and rng.random() < 0.7 else rng.choice(forms)())
            rounds = [("extra", x) for x in extras[:6]] + [("add", f) for f in followups]
            for kind, item in rounds:
                if kind == "add":
                    ch.record("s0.add(%s)" % item)
                    s.add(item)
                    cs.append(item)
                    extra = []
                    if not u.models(cs):
                        break
                else:
                    extra = item
                allc = cs + extra
                ms = u.models(allc)
                vq = u.values(q)
                ch.record("s0.is_true/is_false(%s, extra=%s)" % (q, extra))
                t, f = s.is_true(q, extra_constraints=extra), s.is_false(q, extra_constraints=extra)
                if t and any(vq[i] is not True for i in ms):
                    ch.bad("is_true(%s) claimed but it fails in a model" % q, constraints=[str(x) for x in cs], extra=[str(x) for x in extra])
                if f and any(vq[i] is not False for i in ms):
                    ch.bad("is_false(%s) claimed but it holds in a model" % q, constraints=[str(x) for x in cs], extra=[str(x) for x in extra])
                if bool_only or not ms:
                    continue
                feas = u.feasible(allc, e)
                w = e.length
                for op in ("min", "max"):
                    for signed in (False, True):
                        ch.record("s0.%s(%s, signed=%s, extra=%s)" % (op, e, signed, extra))
                        r = getattr(s, op)(e, extra_constraints=extra, signed=signed)
                        key = (lambda v: tosigned(v, w)) if signed else (lambda v: v)
                        want = (min if op == "min" else max)(feas, key=key)
                        if (r & ((1 << w) - 1)) != want:
                            ch.bad("%s(signed=%s) returned %s, true optimum %s" % (op, signed, r, want), feasible=feas[:40],
                                   constraints=[str(x) for x in cs], extra=[str(x) for x in extra], expr=str(e))
                ch.record("s0.eval(%s, 20, extra=%s)" % (e, extra))
                r = list(s.eval(e, 20, extra_constraints=extra))
                if sorted(r) != feas:
                    ch.bad("eval returned %s, feasible %s" % (sorted(r), feas), constraints=[str(x) for x in cs],
                           extra=[str(x) for x in extra], expr=str(e))
                v = rng.getrandbits(w)
                ch.record("s0.solution(%s, %d, extra=%s)" % (e, v, extra))
                if s.solution(e, v, extra_constraints=extra) != (v in feas):
                    ch.bad("solution(%s,%d) wrong" % (e, v), constraints=[str(x) for x in cs], extra=[str(x) for x in extra])
        except c.errors.UnsatError:
            if u.models(cs):
                ch.bad("UnsatError raised on satisfiable constraints by %s" % (ch.log[-1] if ch.log else "?"), constraints=[str(x) for x in cs])
        except c.errors.ClaripyZeroDivisionError:
            pass
        except c.errors.ClaripyError as ex:
            ch.bad("claripy error %s by %s" % (type(ex).__name__, ch.log[-1] if ch.log else "?"), error=str(ex))
        if report is not None:
            report.count(("scenario", label, tuple(ch.log)), nontrivial=True)
        if ch.fail:
            return ch.fail
    return None
