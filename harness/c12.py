"""C12: SolverComposite answers like a monolithic solver after any history.

Proof: Props/C12.v -- independent (variable-disjoint) constraint groups can be solved separately (sat iff every group sat;
values of an expression come from the groups it depends on if the others are satisfiable; the premise is necessary).
Tie: after every step of every history the children of the real SolverComposite are checked to be together equivalent (by
enumeration) to the constraints added so far, with every live variable registered.
Search: random histories of add / queries (with and without extra constraints) / branch / simplify / split / combine / merge on
trees of SolverComposite objects, every answer against the enumeration of all 4096 assignments.
"""
from __future__ import annotations

import collections
import json
import random
import sys

from common import KERNEL_TB, REPO, Driver, Report, build_driver, check_props, coq_make, known_findings, regen_all, scan_forbidden
from c01 import BV_DRIVER

PROP = "C12"


def composite_invariant(u, s, cs):
    """the children together are equivalent to what was added.  (Pairwise variable-disjointness is NOT an invariant of the
    implementation: after simplify() splits a child, the old child can stay registered under a variable that no longer
    occurs in it, as a redundant copy of constraints that the new children also hold.)"""
    kids = s._solver_list
    have = set(u.models([c for k in kids for c in k.constraints]))
    if s._unsat:
        have = set()
    want = set(u.models(cs))
    if have != want:
        return "the children together have %d models, the added constraints %d" % (len(have), len(want))
    # a cached merged solver (CompositedCacheMixin) must still be the combination of the children it stands for
    # (only meaningful while the solver is satisfiable: once it is not, a child or a cached solver may legitimately have
    # been reduced to False while others have not)
    for key, ms in (list(getattr(s, "_merged_solvers", {}).items()) if want else []):
        try:
            cur = s._solvers_for_variables(set(ms.variables) | set(key))
        except Exception:  # noqa
            continue
        if not cur or any(k not in kids for k in cur):
            continue
        a_ = set(u.models(list(ms.constraints)))
        b_ = set(u.models([c for k in cur for c in k.constraints]))
        if a_ != b_:
            return "the cached merged solver for %s has %d models, the children it combines have %d" % (sorted(key), len(a_), len(b_))
    # every variable of an added constraint is registered, so that queries find the child holding it
    names = set().union(*[c.variables for c in cs]) if cs else set()
    missing = sorted(n for n in names if n not in s._solvers)
    if missing and not s._unsat:
        live = set()
        for k in kids:
            for c in k.constraints:
                live |= c.variables
        missing = [n for n in missing if n in live]
        if missing:
            return "variables %s occur in a child's constraints but are not registered" % missing
    return None


def stale_child_merge(claripy, drv, stats):
    """merge of a composite that holds a redundant child (the merged solver of an earlier query) besides the children the
    variables are registered for: every order in which the shared children can be visited must give the same, right answer
    (the order is that of a set of object ids, i.e. arbitrary).  -> failure dict or None"""
    import itertools
    import solverhist
    from claripy.frontend.composite_frontend import CompositeFrontend
    c = claripy
    u = solverhist.Universe(c, drv, tag="c12sc_")
    x, y, z, b = u.x, u.y, u.z, u.b

    def quiet(f):
        try:
            return f()
        except c.errors.ClaripyError:
            return None

    orig = CompositeFrontend._shared_solvers
    conds = [b == c.ULT(x, y), c.UGT(y, 14), (x & y) != 0]
    for last, expect_cs in ((x == 5, "unsat"), (x == 7, "sat")):
        cs = [c.And(c.UGE(x, 7), c.ULE(x, 7)), y // c.ZeroExt(1, z) == 8, last]
        for perm in itertools.permutations(range(3)):
            s = c.SolverComposite()
            quiet(lambda: s.max(x * y))
            s.add(cs[0])
            s.add(cs[1])
            quiet(lambda: s.max(c.If(b, x, y), signed=True))
            quiet(lambda: s.max(x * y, extra_constraints=[c.ZeroExt(1, z) == x]))
            s.add(cs[2])
            quiet(lambda: s.solution(x * 2, 8))
            quiet(lambda: s.batch_eval([x * y], 5, extra_constraints=[c.ULT(x, 11)]))
            s.split()
            quiet(lambda: s.min(x ^ y, extra_constraints=[c.SDiv(x, y) == 15]))

            def ordered(self, others, perm=perm):
                l = sorted(orig(self, others), key=lambda k: (len(k.variables), str(sorted(k.variables))))
                return [l[i] for i in perm] if len(l) == 3 else l
            CompositeFrontend._shared_solvers = ordered
            try:
                _, m = s.merge([s, s], conds)
            finally:
                CompositeFrontend._shared_solvers = orig
            stats["stale_child_merges"] += 1
            want = bool(u.models([c.Or(*[c.And(cd, *cs) for cd in conds])]))
            got = m.satisfiable()
            if got != want:
                return {"what": "merge of a composite holding a redundant child: satisfiable() is %s, enumeration says %s" % (got, want),
                        "constraints": [str(k) for k in cs], "merge_conditions": [str(k) for k in conds],
                        "order_of_shared_children": list(perm), "children_before_merge": len(s._solver_list),
                        "history": ["max(x*y)", "add(%s)" % cs[0], "add(%s)" % cs[1], "max(If(b,x,y), signed)", "max(x*y, extra=[0#1..z == x])",
                                    "add(%s)" % cs[2], "solution(x*2, 8)", "batch_eval([x*y], 5, extra=[x < 11])", "split()",
                                    "min(x^y, extra=[x /s y == 15])", "merge([s, s], conditions)"]}
    return None


def stale_merged_cache(claripy, drv, stats):
    """a cached merged solver (CompositedCacheMixin) must not survive a change of a child it was combined from, even when
    the names it was requested for are untouched.  -> failure dict or None"""
    import solverhist
    c = claripy
    u = solverhist.Universe(c, drv, tag="c12mc_")
    x, y, z = u.x, u.y, u.z

    def quiet(f):
        try:
            return f()
        except c.errors.ClaripyError:
            return None

    for k1, k2 in ((11, 15), (3, 9), (15, 1)):
        s = c.SolverComposite()
        for f in (lambda: s.max(y, signed=True), lambda: s.min(c.LShR(x, 1), signed=True), lambda: s.eval(y, 5), lambda: s.max(z),
                  lambda: s.is_true(c.ULT(x, 12))):
            quiet(f)
        s.split()
        quiet(lambda: s.max(c.Concat(z, x[0:0])))
        quiet(lambda: s.max(c.LShR(x, 1)))
        quiet(lambda: s.solution(z, 7, extra_constraints=[y // c.ZeroExt(1, z) == k1]))
        cs = [x // 3 == 2, x % 3 == 1]
        for con in cs:
            s.add(con)
        quiet(lambda: s.eval(c.ULT(x, 12), 2))
        quiet(lambda: s.solution(z, 2, extra_constraints=[y // c.ZeroExt(1, z) == k2]))
        stats["stale_cache_scenarios"] += 1
        want = sorted(set(u.feasible(cs, x)))
        got = quiet(lambda: sorted(s.eval(x, 20)))
        bad = composite_invariant(u, s, cs)
        if got != want or bad:
            return {"what": "after a query that reuses a cached merged solver: eval(x, 20) = %s, enumeration says %s; %s" % (got, want, bad or ""),
                    "constraints": [str(k) for k in cs],
                    "history": ["queries on y, x, z", "split()", "max(z .. x[0:0])", "max(LShR(x, 1))", "solution(z, 7, extra=[y / (0#1 .. z) == %d])" % k1,
                                "add(x / 3 == 2)", "add(x % 3 == 1)", "eval(x < 12, 2)", "solution(z, 2, extra=[y / (0#1 .. z) == %d])" % k2,
                                "eval(x, 20)"]}
    return None


def displaced_child_split(claripy, drv, stats):
    """simplify() splits every child, also one that other children have displaced for some of its variables (a merged solver
    still registered under b only): its parts must not displace the live children of x and y in turn -- the live child was
    then taken for stale and skipped by the satisfiability check.  -> failure dict or None"""
    import solverhist
    c = claripy
    u = solverhist.Universe(c, drv, tag="c12dc_")
    x, y, z, b = u.x, u.y, u.z, u.b
    ite = c.If(b, x, y)

    def quiet(f):
        try:
            return f()
        except c.errors.ClaripyError as ex:
            return type(ex).__name__

    for v, k in ((166, 4), (166, 5), (0x93, 2), (166, 3), (0x93, 1)):
        s = c.SolverComposite()
        for f in (lambda: s.eval(x // y == 11, 3, extra_constraints=[b]), lambda: s.eval(ite, 1, extra_constraints=[(x ^ y) == 7]),
                  lambda: s.max(ite, signed=True), lambda: s.max(x ^ y, signed=True), lambda: s.min(ite),
                  lambda: s.max(x ^ y, extra_constraints=[x == 13]), lambda: s.solution(ite, 2), lambda: s.eval(x // y == 11, 3),
                  lambda: s.satisfiable(), lambda: s.min(c.LShR(x, 1))):
            quiet(f)
        cs = [c.Concat(x, y) == v, z < 5, y // c.ZeroExt(1, z) == k]
        for con in cs:
            s.add(con)
        s.simplify()
        stats["displaced_child_scenarios"] += 1
        models = u.models(cs)
        want = sorted(set(u.feasible(cs, c.LShR(x, 1)))) if models else "UnsatError"
        got = quiet(lambda: sorted(s.eval(c.LShR(x, 1), 20)))
        sat = quiet(lambda: s.satisfiable())
        bad = composite_invariant(u, s, cs) if models else None
        if got != want or sat != bool(models) or bad:
            return {"what": "after simplify() of a composite with a displaced merged child: eval(LShR(x, 1), 20) = %s, enumeration says %s; "
                            "satisfiable() = %s, enumeration says %s; %s" % (got, want, sat, bool(models), bad or ""),
                    "constraints": [str(k_) for k_ in cs],
                    "history": ["queries on x / y, If(b, x, y), x ^ y with and without extras", "add(x .. y == %d)" % v, "add(z < 5)",
                                "add(y / (0#1 .. z) == %d)" % k, "simplify()", "eval(LShR(x, 1), 20)", "satisfiable()"]}
    return None


def cache_correspondence(claripy, drv, rng, stats, n):
    """the extracted invalidation rule against CompositedCacheMixin._store_child on real composites with a filled cache:
    the same cached entries must survive.  -> None | mismatch"""
    import solverhist
    c = claripy
    for it in range(n):
        u = solverhist.Universe(c, drv, tag="c12cc%d_" % (it % 5))
        forms = solverhist.constraint_pool(u, rng)
        exprs = solverhist.expr_pool(u, rng)
        s = c.SolverComposite()
        try:
            for _ in range(rng.randint(2, 6)):
                if rng.random() < 0.5:
                    s.add(rng.choice(forms)())
                else:
                    s.eval(rng.choice(exprs), 2)
        except c.errors.ClaripyError:
            continue
        if s._unsat or not s._merged_solvers or not s._solver_list:
            continue
        ids = {}
        before = [(key, frozenset(ms.variables)) for key, ms in s._merged_solvers.items()]
        kid = rng.choice(s._solver_list)
        names = sorted(kid.variables)
        if not names:
            continue
        num = lambda v: ids.setdefault(v, len(ids) + 1)  # noqa
        out = drv.ask(["cache_remove", [[sorted(num(v) for v in key), sorted(num(v) for v in mv)] for key, mv in before], [num(v) for v in names]])
        s._store_child(kid)
        after = set(s._merged_solvers.keys())
        stats["corr_cache_invalidation"] += 1
        model_keeps = {key for (key, _), keep in zip(before, out) if keep == "1"}
        if model_keeps != after:
            return {"what": "the cached merged solvers that survive _store_child differ", "stored_child_variables": names,
                    "cache_before": [[sorted(k), sorted(mv)] for k, mv in before], "model_keeps": [sorted(k) for k in model_keeps],
                    "real_keeps": [sorted(k) for k in after]}
    return None


def main(tier, seed, replay=None):
    sys.path.insert(0, REPO)
    import claripy
    import solverhist
    rep = Report(PROP, tier, seed)
    rng = random.Random(seed)
    if replay:
        r = json.load(open(replay))
        print("replay file records:", json.dumps(r, default=str)[:1500])
        return 1
    regen_all()
    ok_make, log = coq_make(["Proofs/CompositeSound.vo", "Proofs/SplitComposite.vo", "Proofs/CompCacheSound.vo"])
    pr = check_props(PROP) if ok_make else {"ok": False, "obligations": [
        {"name": "C12_*", "closed": False, "axioms": ["<does not compile>"], "ok": False}], "log": log[-3000:]}
    rep.obligations(pr, "make Proofs/CompositeSound.vo && coqc -R coq CV coq/Props/C12.v (Print Assumptions)")
    forb = scan_forbidden()
    proof_ok = pr["ok"] and not forb
    okd, dlog = build_driver(*BV_DRIVER)
    stats = collections.Counter()
    fail = None
    mismatch = None
    drv = Driver("bvdriver") if okd else None
    if drv is not None:
        try:
            mismatch = cache_correspondence(claripy, drv, random.Random(seed + 17), stats, 200 if tier == "quick" else 3000)
        except Exception as ex:  # noqa
            mismatch = {"exception": repr(ex)}
        facs = [("SolverComposite", lambda: claripy.SolverComposite())]
        ops = ["add", "add", "add", "add", "satisfiable", "eval", "eval", "batch_eval", "min", "max", "min", "max", "solution",
               "is_true", "simplify", "downsize", "branch", "eval_bool", "split", "combine", "merge"]
        n = 300 if tier == "quick" else 5000
        fail = solverhist.run_histories(claripy, drv, rng, facs, n, 18, report=rep, tag="c12", ops=ops, max_solvers=5,
                                        invariant=composite_invariant)
        stats["histories"] += n
        if not fail:
            fail = stale_child_merge(claripy, drv, stats)
        if not fail:
            fail = stale_merged_cache(claripy, drv, stats)
        if not fail:
            fail = displaced_child_split(claripy, drv, stats)
        if not fail:
            n2 = 80 if tier == "quick" else 1500
            fail = solverhist.cache_scenarios(claripy, drv, rng, facs, n2, report=rep, tag="c12cs")
            stats["cache_scenarios"] += n2
    rep.cov["rule"] = ("18-step histories on trees of up to 5 SolverComposite objects: add (29 constraint forms over x,y:BV4 z:BV3 b:Bool that "
                       "connect and disconnect variable groups), satisfiable/eval/batch_eval/min/max/solution/is_true with and without extra "
                       "constraints, branch, simplify, downsize, split, combine, merge; after every step the child-partition invariant on every "
                       "solver of the tree; every answer against enumeration; plus cache-aimed scenarios")
    rep.cov["histogram"] = dict(stats)
    rep.cov["traces_validated_against_impl"] = stats["histories"] + stats["corr_cache_invalidation"]
    if fail:
        rep.violation(fail)
    elif not proof_ok or drv is None or mismatch:
        rep.violation({"broken": {"obligations_not_discharged": [o for o in pr["obligations"] if not o["ok"]], "forbidden": forb,
                                  "model_mismatch": mismatch,
                                  "driver": None if okd else dlog[-800:], "coq_log_tail": pr.get("log", "")[-1200:]},
                       "note": "theorem no longer checks; the history tests found no wrong answer"}, found_input=False)
    if drv:
        drv.close()
    rep.cov["trusted_base"] = KERNEL_TB + [
        "Print Assumptions of Props/C12.v theorems: Closed under the global context",
        "the theorems state the independence principle; the bookkeeping of CompositeFrontend (child creation, claiming, copy-on-write, "
        "reabsorption, the merged-solver cache) is NOT modelled: it is tied by the partition invariant and tested by histories",
    ]
    rep.assumptions = ["Z3 answers truthfully"]
    return rep.finish("proof")
