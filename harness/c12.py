"""C12: SolverComposite answers like a monolithic solver after any history.

Proof: Props/C12.v -- independent (variable-disjoint) constraint groups can be solved separately (sat iff every group sat;
values of an expression come from the groups it depends on if the others are satisfiable; the premise is necessary).
Tie: after every step of every history the children of the real SolverComposite are checked to be together equivalent (by
enumeration) to the constraints added so far, with every live variable registered.
Search: random histories of add / queries (with and without extra constraints) / branch / simplify / split / combine / merge on
trees of SolverComposite objects, every answer against the enumeration of all 4096 assignments.
"""
from __future__ import annotations

import collections
import json
import random
import sys

from common import KERNEL_TB, REPO, Driver, Report, build_driver, check_props, coq_make, known_findings, regen_all, scan_forbidden
from c01 import BV_DRIVER

PROP = "C12"


def composite_invariant(u, s, cs):
    """the children together are equivalent to what was added.  (Pairwise variable-disjointness is NOT an invariant of the
    implementation: after simplify() splits a child, the old child can stay registered under a variable that no longer
    occurs in it, as a redundant copy of constraints that the new children also hold.)"""
    kids = s._solver_list
    have = set(u.models([c for k in kids for c in k.constraints]))
    if s._unsat:
        have = set()
    want = set(u.models(cs))
    if have != want:
        return "the children together have %d models, the added constraints %d" % (len(have), len(want))
    # every variable of an added constraint is registered, so that queries find the child holding it
    names = set().union(*[c.variables for c in cs]) if cs else set()
    missing = sorted(n for n in names if n not in s._solvers)
    if missing and not s._unsat:
        live = set()
        for k in kids:
            for c in k.constraints:
                live |= c.variables
        missing = [n for n in missing if n in live]
        if missing:
            return "variables %s occur in a child's constraints but are not registered" % missing
    return None


def main(tier, seed, replay=None):
    sys.path.insert(0, REPO)
    import claripy
    import solverhist
    rep = Report(PROP, tier, seed)
    rng = random.Random(seed)
    if replay:
        r = json.load(open(replay))
        print("replay file records:", json.dumps(r, default=str)[:1500])
        return 1
    regen_all()
    ok_make, log = coq_make(["Proofs/CompositeSound.vo"])
    pr = check_props(PROP) if ok_make else {"ok": False, "obligations": [
        {"name": "C12_*", "closed": False, "axioms": ["<does not compile>"], "ok": False}], "log": log[-3000:]}
    rep.obligations(pr, "make Proofs/CompositeSound.vo && coqc -R coq CV coq/Props/C12.v (Print Assumptions)")
    forb = scan_forbidden()
    proof_ok = pr["ok"] and not forb
    okd, dlog = build_driver(*BV_DRIVER)
    stats = collections.Counter()
    fail = None
    drv = Driver("bvdriver") if okd else None
    if drv is not None:
        facs = [("SolverComposite", lambda: claripy.SolverComposite())]
        ops = ["add", "add", "add", "add", "satisfiable", "eval", "eval", "batch_eval", "min", "max", "min", "max", "solution",
               "is_true", "simplify", "downsize", "branch", "eval_bool", "split", "combine", "merge"]
        n = 120 if tier == "quick" else 5000
        fail = solverhist.run_histories(claripy, drv, rng, facs, n, 18, report=rep, tag="c12", ops=ops, max_solvers=5,
                                        invariant=composite_invariant)
        stats["histories"] += n
        if not fail:
            n2 = 40 if tier == "quick" else 1500
            fail = solverhist.cache_scenarios(claripy, drv, rng, facs, n2, report=rep, tag="c12cs")
            stats["cache_scenarios"] += n2
    rep.cov["rule"] = ("18-step histories on trees of up to 5 SolverComposite objects: add (29 constraint forms over x,y:BV4 z:BV3 b:Bool that "
                       "connect and disconnect variable groups), satisfiable/eval/batch_eval/min/max/solution/is_true with and without extra "
                       "constraints, branch, simplify, downsize, split, combine, merge; after every step the child-partition invariant on every "
                       "solver of the tree; every answer against enumeration; plus cache-aimed scenarios")
    rep.cov["histogram"] = dict(stats)
    rep.cov["traces_validated_against_impl"] = stats["histories"]
    if fail:
        rep.violation(fail)
    elif not proof_ok or drv is None:
        rep.violation({"broken": {"obligations_not_discharged": [o for o in pr["obligations"] if not o["ok"]], "forbidden": forb,
                                  "driver": None if okd else dlog[-800:], "coq_log_tail": pr.get("log", "")[-1200:]},
                       "note": "theorem no longer checks; the history tests found no wrong answer"}, found_input=False)
    if drv:
        drv.close()
    rep.cov["trusted_base"] = KERNEL_TB + [
        "Print Assumptions of Props/C12.v theorems: Closed under the global context",
        "the theorems state the independence principle; the bookkeeping of CompositeFrontend (child creation, claiming, copy-on-write, "
        "reabsorption, the merged-solver cache) is NOT modelled: it is tied by the partition invariant and tested by histories",
    ]
    rep.assumptions = ["Z3 answers truthfully"]
    return rep.finish("proof")
